#!/venv/bin/python
"""Run a seeded defect (seeded/<id>/ or any dir with patch.diff + demo.py) against checks, on a scratch copy of /repo.

usage: tools/seedcheck.py <dir> <PROP>[,<PROP>...] [--tier quick] [--no-demo]"""
import os
import shutil
import subprocess
import sys
import tempfile

d = os.path.abspath(sys.argv[1])
props = sys.argv[2].split(",")
tier = "quick"
if "--tier" in sys.argv:
    tier = sys.argv[sys.argv.index("--tier") + 1]
tmp = tempfile.mkdtemp(prefix="vfseed_")
try:
    subprocess.run(["rsync", "-a", "--exclude", "__pycache__", "--exclude", ".hypothesis", "--exclude", ".git", "--exclude", "docs", "/repo/", tmp + "/"], check=False)
    r = subprocess.run(["patch", "-p1", "-s", "-d", tmp, "-i", os.path.join(d, "patch.diff")], capture_output=True, text=True)
    if r.returncode != 0:
        print("PATCH FAILED", r.stdout, r.stderr)
        sys.exit(2)
    if "--no-demo" not in sys.argv and os.path.exists(os.path.join(d, "demo.py")):
        for name, tree in (("unchanged", "/repo"), ("patched", tmp)):
            r = subprocess.run(["/venv/bin/python", os.path.join(d, "demo.py")], env=dict(os.environ, PYTHONPATH=tree), capture_output=True, text=True, cwd=tmp, timeout=600)
            print(f"demo on {name}: exit {r.returncode}  {(r.stdout + r.stderr).strip().splitlines()[-1][:160] if (r.stdout + r.stderr).strip() else ''}")
    for p in props:
        env = dict(os.environ, VERIF_REPO=tmp, VERIF_NO_EVIDENCE="1", VERIF_ANCHORS="0")
        r = subprocess.run(["/venv/bin/python", "-m", "vf", "check", p, "--tier", tier], cwd="/verif", env=env, capture_output=True, text=True)
        verdict = {0: "MISSED", 1: "caught", 3: "inconclusive"}.get(r.returncode, f"exit{r.returncode}")
        lines = [ln for ln in r.stdout.splitlines() if ln.startswith(("  violated", "INCONCLUSIVE", "INTERNAL"))]
        print(f"check {p} ({tier}): {verdict}  {lines[0][:260] if lines else ''}")
finally:
    shutil.rmtree(tmp, ignore_errors=True)
