#!/bin/bash
# Re-run every kept seeded defect against the quick tier of its property: tools/seedregress.sh [prefix] > seeded/REGRESSION.txt
cd /verif
for d in seeded/${1:-C}*/; do
  id=$(basename $d); prop=$(/venv/bin/python -c "import json;print(json.load(open('$d/meta.json'))['property'])")
  r=$(tools/seedcheck.py $d $prop --no-demo 2>&1 | tail -1 | cut -c1-160)
  echo "$id $r"
done
