#!/venv/bin/python
"""Keep a verified seeded defect: tools/keepseed.py <srcdir> <id> <property> <caught|missed> "<needs>" "<catching condition/notes>" """
import json, os, shutil, sys
src, sid, prop, res, needs, how = sys.argv[1:7]
dst = f"/verif/seeded/{sid}"
os.makedirs(dst, exist_ok=True)
for f in ("patch.diff", "demo.py", "notes.md"):
    if os.path.exists(os.path.join(src, f)):
        shutil.copy(os.path.join(src, f), dst)
json.dump({"id": sid, "property": prop, "breaks": prop, "needs_to_manifest": needs,
           "verified_by_me": ["tools/seedcheck.py: demo.py exits 0 with PYTHONPATH=/repo and non-zero with the patched scratch copy",
                              f"tools/seedcheck.py {dst} {prop} (quick tier, VERIF_REPO=<scratch copy with patch>)",
                              "sub-agent ran the repository test-suite with the patch (see notes.md)"],
           "quick_check_result": res, "detail": how, "origin": "independent sub-agent given only the property text"}, open(os.path.join(dst, "meta.json"), "w"), indent=1)
print("kept", dst)
