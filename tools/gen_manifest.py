#!/venv/bin/python
"""Regenerates /verif/MANIFEST.json from the check modules present in vf/checks (run from /verif)."""
import importlib
import json
import os
import sys

sys.path.insert(0, os.path.dirname(os.path.dirname(os.path.abspath(__file__))))
import vf  # noqa

ENGINES = [
    {"name": "txsan", "path": "vf/txsan.py", "serves_properties": [], "kind_free_text": "per-cycle transaction sanitizer on hooked Body/Method signals"},
    {"name": "dgen+refsem", "path": "vf/gen/", "serves_properties": [], "kind_free_text": "random design generator emitting real Transactron objects + independent reference semantics evaluated on sampled signals"},
    {"name": "compmon", "path": "vf/comp/", "serves_properties": [], "kind_free_text": "hostile driver + lock-step executable reference model over recorded call histories"},
    {"name": "combmon", "path": "vf/comb/", "serves_properties": [], "kind_free_text": "combinational function monitor: exhaustive/stratified inputs against Python definitions"},
    {"name": "pymon", "path": "vf/py/", "serves_properties": [], "kind_free_text": "contracts/reference models on plain Python APIs (icontract where available)"},
    {"name": "inframon", "path": "vf/infra/", "serves_properties": [], "kind_free_text": "independent observer process compared with the tooling layer's own output"},
]

props = [json.loads(l) for l in open("properties.jsonl")]
checks, na = [], []
for p in props:
    pid = p["id"]
    path = f"vf/checks/{pid.lower()}.py"
    if not os.path.exists(path):
        na.append({"property_id": pid, "reason": "check not built yet (implementation in progress; DESIGN.md section 4 describes the planned monitor)"})
        continue
    mod = importlib.import_module(f"vf.checks.{pid.lower()}")
    eng = getattr(mod, "ENGINE", "compmon")
    for e in ENGINES:
        if e["name"] == eng:
            e["serves_properties"].append(pid)
    checks.append({
        "property_id": pid,
        "quick_cmd": f"/venv/bin/python -m vf check {pid} --tier quick",
        "thorough_cmd": f"/venv/bin/python -m vf check {pid} --tier thorough",
        "evidence_file": f"/verif/evidence/{pid}.json",
        "replay_cmd_template": "/venv/bin/python -m vf replay {path}",
        "engine": eng,
        "level_claimed": {
            "category": "exploration",
            "text": getattr(mod, "LEVEL_TEXT", "Runtime monitoring: the real component is simulated under hostile generated workloads while a monitor compares every observed cycle with an executable reference model; the claim is 'held on the executions listed in the evidence file', not a proof. " + mod.RULE),
            "design_ref": f"DESIGN.md section 4, {pid}",
        },
        "level_note": getattr(mod, "LEVEL_NOTE", "Trusted: Amaranth pysim as execution platform, the reference model/oracle in /verif/vf, the sampling discipline (values latched at the clock edge). " + "; ".join(getattr(mod, "ASSUMPTIONS", []))),
        "technique": getattr(mod, "TECHNIQUE", "runtime monitoring: lock-step reference-model monitor over generated hostile call histories (pysim)"),
    })

man = {
    "version": 1,
    "setup_cmd": "/venv/bin/python -m vf setup",
    "hooks": {
        "guard": "TRANSACTRON_VERIF",
        "enable": "no source hooks are needed: every observation point is a public object of the library (Body.run/ready, Method.data_in/out, component attributes); checks import /repo (or $VERIF_REPO) directly and set TRANSACTRON_VERIF=1 for uniformity",
        "baseline_off_cmd": "cd /repo && /venv/bin/python -m pytest -ra -q -p no:cacheprovider --timeout=900 --continue-on-collection-errors",
        "source_commits": [],
        "add_only": True,
    },
    "engines": [e for e in ENGINES if e["serves_properties"]],
    "checks": checks,
    "notes": "All checks: exit 0 held / 1 violation (VIOLATION line) / 3 inconclusive (non-vacuity minimum or watchdog) / 2 internal error. Known findings: /verif/known_findings.json. See DESIGN.md.",
    "not_applicable": na,
}
json.dump(man, open("MANIFEST.json", "w"), indent=1)
print(f"{len(checks)} checks, {len(na)} not claimed")
