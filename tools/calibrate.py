#!/venv/bin/python
"""Sweeps VERIF_SEED over the quick tier of every check (or the given ones) and derives non-vacuity minima = 15% of the smallest value
observed for every key named in the module's MINIMA. Writes vf/minima.json. usage: tools/calibrate.py [--seeds 0-7] [C01 C02 ...]"""
import importlib, json, os, subprocess, sys, tempfile
sys.path.insert(0, "/verif")
import vf  # noqa
args = [a for a in sys.argv[1:] if not a.startswith("--")]
seeds = range(0, 8)
for a in sys.argv[1:]:
    if a.startswith("--seeds="):
        lo, hi = a.split("=")[1].split("-"); seeds = range(int(lo), int(hi) + 1)
pids = args or sorted(f[:-3].upper() for f in os.listdir("/verif/vf/checks") if f.startswith("c") and f.endswith(".py"))
path = "/verif/vf/minima.json"
cal = json.load(open(path)) if os.path.exists(path) else {}
bad = []
for pid in pids:
    mod = importlib.import_module(f"vf.checks.{pid.lower()}")
    keys = list(mod.MINIMA.get("quick", {}))
    obs = {k: [] for k in keys}
    for sd in seeds:
        with tempfile.NamedTemporaryFile(suffix=".json") as tf:
            env = dict(os.environ, VERIF_NO_EVIDENCE="1", VERIF_DUMP=tf.name, VERIF_ANCHORS="0", VERIF_CALIBRATING="1")
            r = subprocess.run(["/venv/bin/python", "-m", "vf", "check", pid, "--tier", "quick", "--seed", str(sd)], cwd="/verif", env=env, capture_output=True, text=True)
            d = json.load(open(tf.name))
        if d["violations"] or d["shards_failed"] or d["harness_errors"]:
            bad.append((pid, sd, d["violations"], d["shards_failed"], d["harness_errors"]))
        for k in keys:
            v = d["conds"].get(k[5:], [0, 0, 0])[1] if k.startswith("cond:") else d["distinct"] if k == "distinct" else d["counters"].get(k, 0)
            obs[k].append(v)
    q = {k: max(1, int(0.15 * min(v))) for k, v in obs.items()}
    cal[pid] = {"quick": q, "thorough": {k: v * 4 if k != "distinct" else v for k, v in q.items()}, "_observed_min_max": {k: [min(v), max(v)] for k, v in obs.items()}}
    print(pid, {k: (min(v), max(v), q[k]) for k, v in obs.items()}, flush=True)
    json.dump(cal, open(path, "w"), indent=1, sort_keys=True)
print("ALARMS DURING SWEEP:", bad)
