import json,sys
props={json.loads(l)['id']:json.loads(l) for l in open('/verif/properties.jsonl')}
def prompt(pid, n=2):
    p=props[pid]
    return f"""You are helping test a verification effort for the open-source Python library kuznia-rdzeni/transactron (a library for Amaranth HDL: Bluespec-style transactions and methods, plus FIFOs, memories, allocators). The repository is at /repo (do NOT edit /repo's working tree, and do NOT read or touch anything under /verif). Python interpreter with all dependencies: /venv/bin/python (the package is installed editable from /repo, so always run with PYTHONPATH pointing at your worktree to make your edited copy win).

Your job: produce {n} different, realistic *bug-introducing* source changes ("seeded defects") to the library, each of which BREAKS the following semantic property while the library still imports and the repository's existing test-suite still passes.

PROPERTY {pid}: {p['title']}
Statement: {p['statement']}
Quantified over: {p['quantifier']['text']}
Code it is anchored in: {', '.join(p['anchors']['files'])}

Setup:
  git -C /repo worktree add --detach /tmp/seed_{pid} HEAD      # your own scratch worktree; work only there
  cd /tmp/seed_{pid}
Run tests like:  cd /tmp/seed_{pid} && PYTHONPATH=/tmp/seed_{pid} /venv/bin/python -m pytest -q -p no:cacheprovider -x -n 8 test/<relevant dirs or files>
(the full suite takes ~5 min with -n 16; run at least every test file that exercises the code you changed, and ideally the whole suite once per final change; three tests are known to be flaky on the unchanged tree: test_stack test_randomized[4]/[5] and the CAM test_random - ignore failures of those only if they also fail without your change.)

Requirements for each seeded defect:
  * It is a small, plausible change a real contributor could make by mistake (off-by-one, wrong signal, dropped term, wrong order, missing case, refactoring slip) in the library source under transactron/ (not in tests).
  * It must need something SPECIFIC to manifest: a particular interleaving of simultaneous calls, a particular multi-step sequence of operations, an unusual configuration or input value, a boundary condition (wrap-around, full/empty, non-power-of-two size), or two cooperating sites that each look fine alone. Do NOT produce changes that ordinary use would expose at once (e.g. that break every call).
  * The existing tests must still pass with the change (verify by running them).
  * Provide a demonstration: a small standalone Python program demo.py (using amaranth's simulator / transactron.testing helpers such as SimpleTestCircuit, PysimSimulator, TestbenchIO, or plain pytest-free asserts) that exits 0 on the unchanged code and exits non-zero (assertion failure) with your change, run as `PYTHONPATH=<tree> /venv/bin/python demo.py`. Verify both directions yourself (unchanged: PYTHONPATH=/repo).
  * The two defects should break the property through different mechanisms / different parts of the code.

Deliverables (write them, then verify they exist):
  /tmp/seed_out/{pid}a/patch.diff   (output of `git diff` in your worktree for defect a ONLY, applicable with `git apply` on a clean tree)
  /tmp/seed_out/{pid}a/demo.py
  /tmp/seed_out/{pid}a/notes.md     (which part of the property it breaks, what exactly it needs in order to manifest, which test commands you ran and their results)
  and the same under /tmp/seed_out/{pid}b/ for defect b (make each patch independent: `git checkout -- .` between them).

When finished, clean up: cd / && git -C /repo worktree remove --force /tmp/seed_{pid}
Final answer: a short summary of the two defects (file, what changed, trigger needed) and confirmation of the verification you did. If you could only produce one defect that meets all requirements, say so."""
if __name__=='__main__':
    print(prompt(sys.argv[1]))
