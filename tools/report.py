#!/venv/bin/python
"""Builds MUTATION_REPORT.md from a `python -m vf.mutants` log (argument) and the seeded/*/meta.json files."""
import glob, json, re, sys, collections
rows = []
for line in open(sys.argv[1]):
    m = re.match(r"^(\S+)\s+(C\d+|-)\s+(caught|MISSED|inconclusive|PATTERN-NOT-FOUND|exit\d+)\s+([\d.]+)s\s*(.*)$", line.rstrip())
    if m:
        rows.append(m.groups())
out = ["# Mutation and seeded-defect report", "",
       "Produced by `python -m vf.mutants` (own one-line mutants from `mutants/list.txt`, each applied to a scratch copy of the repository and",
       "checked with the quick tier through `VERIF_REPO`) and by `tools/seedcheck.py` for the defects under `seeded/` (written by independent",
       "sub-agents that saw only the property text).", "", "## Own mutants", "", "| mutant | property | quick-tier result | first failing condition |", "|---|---|---|---|"]
cnt = collections.Counter()
for name, prop, res, t, first in rows:
    cond = re.search(r"violated condition '([^']+)'", first)
    out.append(f"| {name} | {prop} | {res} | {cond.group(1) if cond else first[:80]} |")
    cnt[res] += 1
out += ["", f"Totals: {dict(cnt)}", "", "A mutant listed as MISSED for one property is normally caught by another property's check (see the other rows of the same mutant);",
        "`inconclusive` means the mutant silenced the behaviour the monitor needs to observe (non-vacuity minimum missed) - a non-zero exit, but not a VIOLATION.", "",
        "## Seeded defects from sub-agents", "", "| id | property | needs to manifest | quick-tier result | notes |", "|---|---|---|---|---|"]
for f in sorted(glob.glob("/verif/seeded/*/meta.json")):
    d = json.load(open(f))
    out.append(f"| {d['id']} | {d['property']} | {d['needs_to_manifest']} | {d['quick_check_result']} | {d['detail']} |")
open("/verif/MUTATION_REPORT.md", "w").write("\n".join(out) + "\n")
print(len(rows), "mutant rows;", dict(cnt))
