"""E4 combinational monitor: drive a pure combinational circuit with input vectors and compare every output with a
Python definition (exhaustively where the input space is small)."""

from __future__ import annotations

import itertools
import random
import traceback

from amaranth import Module, Signal, Value
from amaranth.sim import Simulator

from ..rec import Rec


def allv(*widths):
    return itertools.product(*[range(1 << w) for w in widths])


def corners(w: int) -> list[int]:
    m = (1 << w) - 1
    alt = int("01" * w, 2) & m
    return sorted({0, m, 1, 1 << (w - 1), alt, alt ^ m, m >> 1, m & ~1})


def stratified(rnd: random.Random, w: int, n: int) -> list[int]:
    out = set(corners(w))
    for i in range(w):
        out.add(1 << i)
        out.add(((1 << w) - 1) ^ (1 << i))
    target = min(n + 2 * w + 8, 1 << w)  # never ask for more distinct values than exist
    while len(out) < target:
        k = rnd.choice([1, 2, 3, w // 2, w - 1, w])
        v = 0
        for _ in range(max(1, k)):
            v |= 1 << rnd.randrange(w)
        out.add(v if rnd.random() < 0.5 else rnd.getrandbits(w))
    return sorted(out)


def comb_check(rec: Rec, name: str, build, vectors, ref, *, klass_of=None, family: str = "", exhaustive: bool = False):
    """build() -> (module, ins, outs); ref(*invals) -> list of expected values (None = unspecified).

    klass_of(invals) -> known-finding class for that input ('' = none)."""
    try:
        m, ins, outs = build()
        osigs = []
        for k, o in enumerate(outs):
            if isinstance(o, Signal):
                osigs.append(o)
            else:
                v = Value.cast(o)
                s = Signal(v.shape(), name=f"o{k}")
                m.d.comb += s.eq(v)
                osigs.append(s)
        sim = Simulator(m)
    except Exception:
        rec.check(f"{family}:constructs", False, case={"instance": name}, detail=traceback.format_exc()[-1200:])
        return
    n = [0, 0]

    async def tb(ctx):
        for v in vectors:
            for s, x in zip(ins, v):
                ctx.set(s, x)
            got = [ctx.get(o) for o in osigs]
            exp = ref(*v)
            n[0] += 1
            for k, (g, e) in enumerate(zip(got, exp)):
                if e is None:
                    continue
                e &= (1 << len(osigs[k])) - 1
                g &= (1 << len(osigs[k])) - 1
                if g != e:
                    kl = klass_of(v) if klass_of else ""
                    rec.check(family, False, klass=kl, case={"instance": name, "inputs": list(v)}, detail={"output_index": k, "observed": g, "expected": e})
                    n[1] += 1
                    if n[1] > 3 and not kl:
                        return
                else:
                    rec.check(family, True)

    sim.add_testbench(tb)
    sim.run()
    rec.count("evaluations", n[0])
    rec.count("instances")
    if exhaustive:
        rec.count("exhaustive_instances")
    rec.nontrivial(name)
