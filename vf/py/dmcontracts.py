"""Observation-only contracts on the real DependencyManager (E5). icontract is used when it is installed
(/verif/.deps, put there by `python -m vf setup`); otherwise equivalent hand-written wrappers are used.

Lessons from the prototype built in: the contracts never call key.combine (a repository test counts combine calls and
UnifierKey.combine creates hardware) and never use ==/!= on stored values (Amaranth values raise on bool()): identity and
lengths only."""

from __future__ import annotations

import collections
import functools

STATS: collections.Counter = collections.Counter()
VIOLATIONS: list[dict] = []
_installed = {"how": None}


class ContractBroken(Exception):
    pass


def _report(name, **info):
    STATS[f"violated:{name}"] += 1
    if len(VIOLATIONS) < 20:
        VIOLATIONS.append({"contract": name, **{k: repr(v)[:200] for k, v in info.items()}})


def _shadow(self):
    sh = self.__dict__.get("_vf_shadow")
    if sh is None:
        sh = self.__dict__["_vf_shadow"] = {"version": collections.Counter(), "cached_at": {}}
    return sh


def install():
    """Wrap add_dependency / get_optional_dependency of the real class. Returns 'icontract' or 'manual'."""
    if _installed["how"]:
        return _installed["how"]
    import transactron.utils.dependencies as deps

    cls = deps.DependencyManager
    orig_add, orig_get = cls.add_dependency, cls.get_optional_dependency

    # --- snapshots / postconditions as named functions (icontract needs argument names matching) ---
    def old_len(self, key):
        return len(self.dependencies[key]) if key in self.dependencies else 0

    def old_locked(self, key):
        return key in self.locked_dependencies

    def add_post(self, key, dependency, OLD):
        STATS["add_post_evaluated"] += 1
        sh = _shadow(self)
        sh["version"][key] += 1
        ok = True
        if key in self.cache:
            _report("add_invalidates_cache", key=key)
            ok = False
        lst = self.dependencies[key]
        if len(lst) != OLD.n + 1 or lst[-1] is not dependency:
            _report("add_appends_exactly_the_dependency", key=key, old_len=OLD.n, new_len=len(lst))
            ok = False
        if OLD.locked:
            _report("add_after_locking_get_raises", key=key)
            ok = False
        return True  # observation-only: never abort what is being observed

    def get_pre_hit(self, key):
        return key in self.cache

    def get_post(self, key, result, OLD):
        STATS["get_post_evaluated"] += 1
        sh = _shadow(self)
        if OLD.hit:
            STATS["cache_hits_checked"] += 1
            if sh["cached_at"].get(key, sh["version"][key]) != sh["version"][key]:
                _report("cache_never_stale", key=key, cached_at=sh["cached_at"].get(key), version=sh["version"][key])
        if key in self.cache:
            if not key.cache:
                _report("non_cache_key_not_cached", key=key)
            if not OLD.hit:
                sh["cached_at"][key] = sh["version"][key]
        if key.lock_on_get and key not in self.locked_dependencies:
            _report("locking_key_locked_after_get", key=key)
        return True

    how = "manual"
    try:
        import icontract

        add_c = icontract.snapshot(old_len, name="n")(icontract.snapshot(old_locked, name="locked")(
            icontract.ensure(add_post, error=ContractBroken)(orig_add)))
        get_c = icontract.snapshot(get_pre_hit, name="hit")(icontract.ensure(get_post, error=ContractBroken)(orig_get))
        # the snapshot decorators must wrap the ensure-decorated function: rebuild in the documented order
        cls.add_dependency = add_c
        cls.get_optional_dependency = get_c
        how = "icontract"
    except Exception:
        class _Old:
            pass

        @functools.wraps(orig_add)
        def add_w(self, key, dependency):
            o = _Old()
            o.n, o.locked = old_len(self, key), old_locked(self, key)
            orig_add(self, key, dependency)
            add_post(self, key, dependency, o)

        @functools.wraps(orig_get)
        def get_w(self, key):
            o = _Old()
            o.hit = get_pre_hit(self, key)
            res = orig_get(self, key)
            get_post(self, key, res, o)
            return res

        cls.add_dependency = add_w
        cls.get_optional_dependency = get_w
    _installed["how"] = how
    return how
