"""Measures which lines of the files a property is anchored in were executed by a worker.

Uses sys.monitoring LINE events and returns DISABLE from the callback, so every code location
costs one callback in the life of the process (negligible)."""

from __future__ import annotations

import json
import os
import sys

from . import VERIF_DIR, REPO

TOOL = 3


def anchor_files(pid: str) -> list[str]:
    with open(os.path.join(VERIF_DIR, "properties.jsonl")) as f:
        for line in f:
            p = json.loads(line)
            if p["id"] == pid:
                return [os.path.join(REPO, x) for x in p["anchors"]["files"]]
    return []


def start(pid: str):
    mon = getattr(sys, "monitoring", None)
    if mon is None:
        return None
    files = set(anchor_files(pid))
    seen: set[tuple[str, int]] = set()
    try:
        mon.use_tool_id(TOOL, "vf-anchors")
    except ValueError:
        return None

    def on_line(code, line):
        if code.co_filename in files:
            seen.add((code.co_filename, line))
        return mon.DISABLE

    mon.register_callback(TOOL, mon.events.LINE, on_line)
    mon.set_events(TOOL, mon.events.LINE)
    return {"seen": seen, "reported": set()}


def snapshot(cov) -> list[str]:
    new = cov["seen"] - cov["reported"]
    cov["reported"] |= new
    return sorted(f"{os.path.relpath(f, REPO)}:{ln}" for f, ln in new)
