"""Parent-side runner: shards a check over worker subprocesses, merges, classifies, writes evidence."""

from __future__ import annotations

import importlib
import json
import os
import shutil
import subprocess
import sys
import tempfile
import time

from . import VERIF_DIR, REPO
from .rec import Merged, jsonable

EVIDENCE_DIR = os.path.join(VERIF_DIR, "evidence")
REPLAY_DIR = os.path.join(VERIF_DIR, "replays")
KNOWN_FILE = os.path.join(VERIF_DIR, "known_findings.json")

WATCHDOG = {"quick": 600.0, "thorough": 3 * 3600.0}


def load_check(pid: str):
    return importlib.import_module(f"vf.checks.{pid.lower()}")


def load_known(pid: str) -> list[dict]:
    try:
        with open(KNOWN_FILE) as f:
            entries = json.load(f)["findings"]
    except FileNotFoundError:
        return []
    return [e for e in entries if e["property"] == pid]


def anchor_summary(lines: set[str]) -> dict[str, int]:
    out: dict[str, int] = {}
    for x in lines:
        f = x.rsplit(":", 1)[0]
        out[f] = out.get(f, 0) + 1
    return dict(sorted(out.items()))


def nworkers() -> int:
    try:
        n = len(os.sched_getaffinity(0))
    except AttributeError:
        n = os.cpu_count() or 1
    return max(1, min(16, int(os.environ.get("VERIF_JOBS", n))))


def run_check(pid: str, tier: str, seed: int, only_shards: list[dict] | None = None) -> int:
    t0 = time.time()
    mod = load_check(pid)
    known = load_known(pid)
    open_known = [e for e in known if e["status"] == "open"]

    if only_shards is not None:
        shards = only_shards
    else:
        shards = list(mod.shards(tier, seed))
        for e in open_known:
            for w in e.get("witness_shards", []):
                shards.append(dict(w, _witness=e["key"]))
    for i, s in enumerate(shards):
        s.setdefault("_i", i)

    n = min(nworkers(), max(1, len(shards)))
    tmp = tempfile.mkdtemp(prefix=f"vf_{pid}_")
    merged = Merged()
    inconclusive: list[str] = []
    try:
        procs = []
        env = dict(os.environ)
        env["PYTHONPATH"] = VERIF_DIR + (os.pathsep + env["PYTHONPATH"] if env.get("PYTHONPATH") else "")
        env.setdefault("PYTHONHASHSEED", "0")
        for w in range(n):
            mine = shards[w::n]
            spec = os.path.join(tmp, f"spec{w}.json")
            out = os.path.join(tmp, f"out{w}.jsonl")
            err = os.path.join(tmp, f"err{w}.txt")
            with open(spec, "w") as f:
                json.dump(mine, f)
            p = subprocess.Popen(
                [sys.executable, "-m", "vf", "worker", pid, spec, out],
                cwd=VERIF_DIR,
                env=env,
                stdout=open(err, "w"),
                stderr=subprocess.STDOUT,
            )
            procs.append((p, out, err, len(mine)))
        deadline = t0 + float(os.environ.get("VERIF_WATCHDOG", WATCHDOG[tier]))
        for p, out, err, cnt in procs:
            try:
                p.wait(timeout=max(1.0, deadline - time.time()))
            except subprocess.TimeoutExpired:
                p.kill()
                p.wait()
                inconclusive.append(f"watchdog fired after {int(time.time() - t0)} s (worker killed)")
        wit_fail: dict[str, int] = {}
        for p, out, err, cnt in procs:
            got = 0
            if os.path.exists(out):
                with open(out) as f:
                    for line in f:
                        line = line.strip()
                        if not line:
                            continue
                        d = json.loads(line)
                        got += 1
                        if d.get("crash"):
                            merged.shards_failed.append(d)
                        else:
                            merged.add(d)
            if got < cnt and p.returncode not in (None,):
                tail = ""
                try:
                    tail = open(err).read()[-1500:]
                except OSError:
                    pass
                if p.returncode != 0:
                    inconclusive.append(f"worker exited with {p.returncode} after {got}/{cnt} shards: {tail.strip()[-400:]}")
    finally:
        shutil.rmtree(tmp, ignore_errors=True)

    for d in merged.shards_failed[:2]:
        inconclusive.append(f"harness crash in shard {json.dumps(d['shard'])[:200]}: {d['crash'][-600:]}")
    if len(merged.shards_failed) > 2:
        inconclusive.append(f"{len(merged.shards_failed) - 2} more shard(s) crashed")
    for h in merged.harness_errors[:3]:
        inconclusive.append(f"harness self-check failed: {h}")

    # classify violations against known findings (by mechanism class, never by hash)
    unknown, known_hits = [], {}
    open_keys = {e["key"] for e in open_known}
    for v in merged.violations:
        if v["klass"] and v["klass"] in open_keys:
            known_hits[v["klass"]] = known_hits.get(v["klass"], 0) + 1
        else:
            unknown.append(v)

    # non-vacuity (calibrated minima from vf/minima.json take precedence over the module's hand-written defaults)
    minima = getattr(mod, "MINIMA", {}).get(tier, getattr(mod, "MINIMA", {}).get("quick", {})) if only_shards is None else {}
    if only_shards is None:
        try:
            with open(os.path.join(VERIF_DIR, "vf", "minima.json")) as f:
                cal = json.load(f).get(pid, {}).get(tier)
            if cal:
                minima = cal
        except FileNotFoundError:
            pass
    if os.environ.get("VERIF_DUMP"):
        with open(os.environ["VERIF_DUMP"], "w") as f:
            json.dump({"counters": dict(merged.counters), "conds": merged.conds, "distinct": len(merged.distinct), "violations": len(merged.violations),
                       "shards_failed": len(merged.shards_failed), "harness_errors": merged.harness_errors[:3]}, f)
    for name, need in minima.items():
        if name.startswith("cond:"):
            have = merged.conds.get(name[5:], [0, 0, 0])[1]
        elif name == "distinct":
            have = len(merged.distinct)
        else:
            have = merged.counters.get(name, 0)
        if have < need:
            inconclusive.append(f"non-vacuity: {name}={have} < {need} (the deciding monitor was not reached often enough)")

    evaluations_key = getattr(mod, "EVALUATIONS", "cycles")
    evaluations = int(merged.counters.get(evaluations_key, 0)) or sum(c[0] for c in merged.conds.values())
    exhaustive = bool(getattr(mod, "exhaustive", lambda m, t: False)(merged, tier)) if not unknown else False
    wall = time.time() - t0

    verdict = "violated" if unknown else ("inconclusive" if inconclusive else "held")
    samples = merged.samples[:8] or [{"note": "no sample recorded"}]
    ev = {
        "property_id": pid,
        "tier": tier,
        "seed": seed,
        "level": "exploration",
        "coverage": {
            "evaluations": max(evaluations, 0),
            "distinct_nontrivial": len(merged.distinct),
            "rule": getattr(mod, "RULE", ""),
            "samples": samples,
            "exhaustive": exhaustive,
            "evaluations_unit": evaluations_key,
            "conditions": {k: {"evaluated": v[0], "antecedent_true": v[1], "failed": v[2]} for k, v in sorted(merged.conds.items())},
            "counters": dict(sorted(merged.counters.items())),
            "distinct_states": len(merged.states),
            "shards": {"planned": len(shards), "completed": merged.shards_done, "crashed": len(merged.shards_failed)},
            "workers": n,
            "anchor_lines_executed": anchor_summary(merged.anchor_lines),
            "known_findings_observed": known_hits,
            "inconclusive_reasons": inconclusive,
            "verdict": verdict,
            "repo": REPO,
            "notes": merged.notes[:20],
        },
        "assumptions": list(getattr(mod, "ASSUMPTIONS", [])),
        "wall_s": round(wall, 2),
        "violations": len(unknown),
    }
    if only_shards is None and not os.environ.get("VERIF_NO_EVIDENCE"):
        os.makedirs(EVIDENCE_DIR, exist_ok=True)
        with open(os.path.join(EVIDENCE_DIR, f"{pid}.json"), "w") as f:
            json.dump(ev, f, indent=1)

    # output
    print(f"[{pid}] tier={tier} seed={seed} shards={merged.shards_done}/{len(shards)} evaluations({evaluations_key})={evaluations} "
          f"distinct_nontrivial={len(merged.distinct)} wall={wall:.1f}s")
    for k, v in sorted(merged.conds.items()):
        print(f"  cond {k}: evaluated={v[0]} antecedent_true={v[1]} failed={v[2]}")
    shown = sorted(merged.counters.items())
    print("  counters: " + ", ".join(f"{k}={v}" for k, v in shown[:60]))
    for e in open_known:
        hits = known_hits.get(e["key"], 0)
        print(f"KNOWN-FINDING: property={pid} {e['key']}: {e['what']} (observed {hits} time(s) this run)")
    if unknown:
        global REPLAY_DIR
        if os.environ.get("VERIF_NO_EVIDENCE"):
            REPLAY_DIR = tempfile.mkdtemp(prefix="vf_replays_")
        os.makedirs(REPLAY_DIR, exist_ok=True)
        seen = set()
        for v in unknown:
            k = (v["cond"], v["klass"])
            if k in seen:
                continue
            seen.add(k)
            path = os.path.join(REPLAY_DIR, f"{pid}-{tier}-{seed}-{len(seen)}.json")
            with open(path, "w") as f:
                json.dump({"property": pid, "tier": tier, "seed": seed, "violation": v}, f, indent=1)
            print(f"  violated condition '{v['cond']}' class='{v['klass']}' detail={json.dumps(v['detail'])[:300]}")
            print(f"VIOLATION property={pid} replay={path}")
        return 1
    if inconclusive:
        for r in inconclusive:
            print(f"INCONCLUSIVE property={pid} reason={r}")
        return 3
    print(f"HELD property={pid} on everything explored ({evaluations} {evaluations_key})")
    return 0


def replay(path: str) -> int:
    with open(path) as f:
        d = json.load(f)
    v = d["violation"]
    shard = dict(v["shard"])
    shard.pop("_i", None)
    print(f"replaying shard {shard} of {d['property']} (original failing condition: {v['cond']})")
    return run_check(d["property"], d.get("tier", "quick"), d.get("seed", 0), only_shards=[shard])
