"""Recorder of what a monitor observed inside one shard (worker side) and merge (parent side)."""

from __future__ import annotations

import collections
import json
from typing import Any

MAX_VIOL_PER_SHARD = 6
MAX_SAMPLES = 4
MAX_DISTINCT = 200000


def jsonable(x: Any) -> Any:
    if isinstance(x, (str, int, float, bool)) or x is None:
        return x
    if isinstance(x, dict):
        return {str(k): jsonable(v) for k, v in x.items()}
    if isinstance(x, (list, tuple, set, frozenset, collections.deque)):
        return [jsonable(v) for v in x]
    return repr(x)


class Rec:
    """Accumulates counters, condition evaluations, distinct non-trivial cases, samples, violations."""

    def __init__(self, prop: str, shard: dict | None = None):
        self.prop = prop
        self.shard = shard or {}
        self.counters: collections.Counter[str] = collections.Counter()
        self.conds: dict[str, list[int]] = {}  # name -> [evaluated, antecedent true, failed]
        self.distinct: set[str] = set()
        self.samples: list[Any] = []
        self.violations: list[dict] = []
        self.viol_total = 0
        self.states: set[str] = set()
        self.notes: list[str] = []
        self.harness_errors: list[str] = []

    # -- counters -------------------------------------------------------------------------
    def count(self, name: str, n: int = 1):
        self.counters[name] += n

    def nontrivial(self, key: Any):
        if len(self.distinct) < MAX_DISTINCT:
            self.distinct.add(key if isinstance(key, str) else json.dumps(jsonable(key), sort_keys=True))

    def state(self, key: Any):
        if len(self.states) < MAX_DISTINCT:
            self.states.add(key if isinstance(key, str) else json.dumps(jsonable(key), sort_keys=True))

    def sample(self, obj: Any, force: bool = False):
        if force or len(self.samples) < MAX_SAMPLES:
            self.samples.append(jsonable(obj))

    def note(self, text: str):
        if len(self.notes) < 20:
            self.notes.append(text)

    def harness_error(self, text: str):
        if len(self.harness_errors) < 10:
            self.harness_errors.append(text)

    # -- monitor conditions ---------------------------------------------------------------
    def check(self, name: str, ok: bool, *, antecedent: bool = True, klass: str = "", case: Any = None, detail: Any = None):
        """Evaluate monitor condition `name`. antecedent=False means the implication was vacuous."""
        c = self.conds.setdefault(name, [0, 0, 0])
        c[0] += 1
        if not antecedent:
            return True
        c[1] += 1
        if ok:
            return True
        c[2] += 1
        self.violation(name, klass=klass, case=case, detail=detail)
        return False

    def violation(self, cond: str, *, klass: str = "", case: Any = None, detail: Any = None):
        self.viol_total += 1
        key = (cond, klass)
        # keep at most a few per (cond, klass) so that a different mechanism is not crowded out
        same = sum(1 for v in self.violations if (v["cond"], v["klass"]) == key)
        if same < 2 and len(self.violations) < MAX_VIOL_PER_SHARD * 4:
            self.violations.append(
                {"cond": cond, "klass": klass, "case": jsonable(case), "detail": jsonable(detail), "shard": jsonable(self.shard)}
            )

    # -- serialisation --------------------------------------------------------------------
    def dump(self) -> dict:
        return {
            "shard": jsonable(self.shard),
            "counters": dict(self.counters),
            "conds": self.conds,
            "distinct": sorted(self.distinct),
            "states": sorted(self.states),
            "samples": self.samples,
            "violations": self.violations,
            "viol_total": self.viol_total,
            "notes": self.notes,
            "harness_errors": self.harness_errors,
        }


class Merged:
    def __init__(self):
        self.counters: collections.Counter[str] = collections.Counter()
        self.conds: dict[str, list[int]] = {}
        self.distinct: set[str] = set()
        self.states: set[str] = set()
        self.samples: list[Any] = []
        self.violations: list[dict] = []
        self.viol_total = 0
        self.notes: list[str] = []
        self.harness_errors: list[str] = []
        self.shards_done = 0
        self.anchor_lines: set[str] = set()
        self.shards_failed: list[dict] = []

    def add(self, d: dict):
        self.shards_done += 1
        self.counters.update(d["counters"])
        for k, v in d["conds"].items():
            c = self.conds.setdefault(k, [0, 0, 0])
            for i in range(3):
                c[i] += v[i]
        self.distinct.update(d["distinct"])
        self.states.update(d["states"])
        if len(self.samples) < 8:
            self.samples.extend(d["samples"][: 8 - len(self.samples)])
        self.violations.extend(d["violations"])
        self.viol_total += d["viol_total"]
        self.notes.extend(d["notes"][: max(0, 30 - len(self.notes))])
        self.harness_errors.extend(d["harness_errors"])
        self.anchor_lines.update(d.get("anchor_lines", []))
