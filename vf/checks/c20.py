"""C20 - Semaphore counts acquisitions."""

from transactron.lib.fifo import Semaphore

from ..comp.common import ComponentCheck
from ..comp.models import SemM

MAXS = [1, 2, 3, 5, 8, 13]


def pick(rnd, i):
    mx = MAXS[i % len(MAXS)]
    case = {"kind": "Semaphore", "max_count": mx}
    return case, (lambda r: (Semaphore(mx), SemM(mx))), ""


CHECK = ComponentCheck("C20", pick, tiers={"quick": (36, 300), "thorough": (600, 1000)})
shards, run_shard = CHECK.shards, CHECK.run_shard
RULE = ("[in 30% of the histories every provided exclusive method has a second, competing caller transaction: a request is issued by the main caller, the rival or both; condition exclusive_method_serves_at_most_one_caller_per_cycle] histories = hostile random acquire/release/clear sequences for max_count in {1,2,3,5,8,13}; the count register is compared with the model "
        "every cycle; non-trivial distinct case = (max_count, count, set of executed methods) - a finite space reported with distinct_states")
ASSUMPTIONS = ["pysim execution"]
MINIMA = {"quick": {"cycles": 5000, "calls:acquire": 800, "calls:release": 800, "calls:clear": 30, "distinct": 40}, "thorough": {"cycles": 200000, "distinct": 100}}
