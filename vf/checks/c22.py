"""C22 - AsyncMemoryBank reads current contents."""

from transactron.lib.storage import AsyncMemoryBank

from ..comp.common import ComponentCheck
from ..comp.models import AsyncMemM


def pick(rnd, i):
    width = rnd.choice([8, 8, 4, 6, 12])
    gran = rnd.choice([None] + [g for g in (1, 2, 3, 4) if width % g == 0 and g < width])
    depth = rnd.choice([2, 3, 4, 5, 8, 11])
    rp, wp = rnd.randint(1, 4), rnd.randint(1, min(3, depth))
    case = {"kind": "AsyncMemoryBank", "granularity": gran, "width": width, "depth": depth, "read_ports": rp, "write_ports": wp}

    def make(r):
        return AsyncMemoryBank(shape=width, depth=depth, granularity=gran, read_ports=rp, write_ports=wp), AsyncMemM(depth, width, rp, wp, gran)

    return case, make, ""


CHECK = ComponentCheck("C22", pick, tiers={"quick": (48, 300), "thorough": (1500, 1000)}, drain=0,
                       embedded=(("AsyncMemoryBank",), ("tagged_measurer",)), suite=(("AsyncMemoryBank",), ("test/lib/test_metrics.py",)))
shards, run_shard = CHECK.shards, CHECK.run_shard
RULE = ("[in 30% of the histories every provided exclusive method has a second, competing caller transaction: a request is issued by the main caller, the rival or both; condition exclusive_method_serves_at_most_one_caller_per_cycle] [plus a second workload: the AsyncMemoryBank embedded in TaggedLatencyMeasurer (slot store), watched passively (vf/passive.py) against the same reference model, conditions embedded:*] histories = hostile random read/write sequences for 1-4 read ports, 1-3 write ports, depth {2,3,4,5,8,11}, width {4,6,8,12}, granularity None or a "
        "divisor of the width; reads are aimed at the most recently written row in half of the cycles; distinct non-trivial case = (config, tags among "
        "partial mask / read and write of the same row in one cycle / read of the last written row)")
ASSUMPTIONS = ["no two write ports address the same row in one cycle"]
MINIMA = {"quick": {"cycles": 5000, "calls:read": 5000, "calls:write": 3000, "distinct": 40}, "thorough": {"cycles": 500000, "distinct": 150}}
