"""C26 - PreservedOrderAllocator tracks allocation order."""

from transactron.lib.allocators import PreservedOrderAllocator

from ..comp.common import ComponentCheck
from ..comp.models import POAllocM

ENTRIES = [1, 2, 3, 4, 5, 8]


def pick(rnd, i):
    n = ENTRIES[i % len(ENTRIES)]
    case = {"kind": "POAlloc", "entries": n}
    return case, (lambda r: (PreservedOrderAllocator(n), POAllocM(n))), ""


CHECK = ComponentCheck("C26", pick, drain=0, suite=(("PreservedOrderAllocator",), ("test/lib/test_allocators.py",)))
shards, run_shard = CHECK.shards, CHECK.run_shard
RULE = ("[in 30% of the histories every provided exclusive method has a second, competing caller transaction: a request is issued by the main caller, the rival or both; condition exclusive_method_serves_at_most_one_caller_per_cycle] histories = hostile random alloc/free/free_idx/order/clear sequences for entries in {1,2,3,4,5,8}, freeing the oldest, newest or a random "
        "allocated identifier; `order` is read every possible cycle and must be a permutation whose prefix is the model's allocation order; "
        "non-trivial distinct case = (entries, set of >=2 executed state-changing methods, used count)")
ASSUMPTIONS = ["free and free_idx conflict (free calls free_idx): only done=>allowed and progress of the pair are required for them"]
MINIMA = {"quick": {"cycles": 5000, "calls:alloc": 800, "calls:order": 2000, "distinct": 25}, "thorough": {"cycles": 500000, "distinct": 60}}
