"""C34 - hardware logs and assertions fire exactly when triggered."""

from __future__ import annotations

import logging
import os
import random
import traceback

os.environ.setdefault("__TRANSACTRON_LOG_LEVEL", "DEBUG")
os.environ.setdefault("__TRANSACTRON_LOG_FILTER", ".*")

from amaranth import C, Elaboratable, Signal, signed, Const, Cat  # noqa: E402
from transactron import TModule, Transaction, Method, def_method  # noqa: E402
from transactron.lib import AdapterTrans  # noqa: E402
from transactron.testing import PysimSimulator, TestCaseWithSimulatorBase  # noqa: E402
from transactron.testing import logging as tlogging  # noqa: E402
from transactron.testing.logging import make_logging_process  # noqa: E402
from transactron.testing.tick_count import TicksKey, make_tick_count_process  # noqa: E402
from transactron.utils import logging as hwlog  # noqa: E402
from transactron.utils.dependencies import DependencyContext, DependencyManager  # noqa: E402

ENGINE = "inframon"
EVALUATIONS = "messages"
TECHNIQUE = "runtime monitoring: independent observer testbench computes the expected log messages per cycle; messages delivered through the real logging process to a capturing logging handler and the simulation outcome are compared with it"

FMTS = ["", "d", "x", "X", "b", "o", "#x", "#b", "08b", ">6d", "<5d", "+d", "04x", "=+7d", "#06x", "_d", "_b", "*>9x", " d", "#o", ">8s"]
STRINGS = ["ok", "fetch", "a", "Zq9", "unit-7"]
LEVELS = [logging.DEBUG, logging.INFO, logging.WARNING, logging.ERROR]


class StopSim(Exception):
    pass


class Capture(logging.Handler):
    def __init__(self):
        super().__init__(level=0)
        self.got = []

    def emit(self, record):
        self.got.append((tlogging._sim_cycle, record.name, record.levelno, record.args[2], record.args[0], record.args[1]))


class Design(Elaboratable):
    def __init__(self, rnd, with_error):
        self.rnd, self.with_error = rnd, with_error
        self.go, self.c, self.sel = Signal(), Signal(), Signal()
        self.meth = Method()
        self.caller = AdapterTrans.create(self.meth)
        self.recs = []

    def elaborate(self, platform):
        m = TModule()
        rnd = self.rnd
        m.submodules.caller = self.caller
        plan = []
        n = rnd.randint(1, 6)
        for s in range(n):
            lg = hwlog.HardwareLogger(rnd.choice(["vf.core", "vf.core.sub", "vf.mem", "other"]))
            level = rnd.choice(LEVELS[:3]) if not self.with_error or s < n - 1 else logging.ERROR
            if self.with_error and rnd.random() < 0.15:
                level = logging.ERROR
            fields = []
            fmt = rnd.choice(["msg{} ".format(s), "", "{{lit}} "])
            for j in range(rnd.randint(0, 3)):
                k = rnd.choice(["u", "u", "s", "str"])
                if k == "str":
                    sig = Signal(64, name=f"l{s}_{j}")
                    sf = rnd.choice(["s", "s", ">8s", "<7s"])
                    fields.append((sig, sf, k, 64))
                    fmt += "{:" + sf + "}" + rnd.choice(["", " ", "/"])
                else:
                    w = rnd.choice([1, 4, 8, 13, 32])
                    sig = Signal(signed(w) if k == "s" else w, name=f"l{s}_{j}")
                    f = rnd.choice(FMTS[:-1])
                    fields.append((sig, f, k, w))
                    fmt += "{" + (":" + f if f else "") + "}" + rnd.choice(["", " ", ",", " end"])
            trig = Signal(name=f"trig{s}")
            ctxk = rnd.choice(["top", "if", "body", "method_body", "toplog", "assertion"]) if level != logging.ERROR else rnd.choice(["top", "if", "body", "toplog", "assertion"])
            # 40% of the triggers are multi-bit values that are non-zero exactly when the trigger holds and always have bit 0 clear
            plan.append(dict(logger=lg, level=level, fmt=fmt, fields=fields, trig=trig, ctx=ctxk, site=s, wide=rnd.random() < 0.4))

        def emit(p):
            lg, args = p["logger"], [f[0] for f in p["fields"]]
            tv = Cat(C(0, 1), p["trig"] & self.sel, p["trig"] & ~self.sel) if p["wide"] else p["trig"]
            if p["ctx"] == "toplog":
                lg.top_log(p["level"], tv, p["fmt"], *args)
            elif p["ctx"] == "assertion":
                p["level"] = logging.ERROR
                # a multi-bit asserted value: non-zero (but never all ones) while the assertion holds, zero when it fails
                lg.assertion(m, Cat(~p["trig"] & self.sel, ~p["trig"] & ~self.sel), p["fmt"], *args)
            else:
                lg.log(m, p["level"], tv, p["fmt"], *args)

        order = []
        for p in plan:
            if p["ctx"] in ("top", "toplog", "assertion"):
                emit(p)
                order.append(p)
            elif p["ctx"] == "if":
                with m.If(self.c):
                    emit(p)
                order.append(p)
        with Transaction(name="t").body(m, ready=self.go):
            for p in plan:
                if p["ctx"] == "body":
                    emit(p)
                    order.append(p)

        @def_method(m, self.meth)
        def _():
            for p in plan:
                if p["ctx"] == "method_body":
                    emit(p)
                    order.append(p)

        self.recs = order
        return m


def render(p, vals):
    """Expected message: the format string with each replacement field substituted by Python's format of the sampled value."""
    res, i, k = "", 0, 0
    fmt = p["fmt"]
    while i < len(fmt):
        if fmt.startswith("{{", i):
            res += "{"
            i += 2
        elif fmt.startswith("}}", i):
            res += "}"
            i += 2
        elif fmt[i] == "{":
            j = fmt.index("}", i)
            sig, f, kind, w = p["fields"][k]
            res += format(vals[k], f[:-1]) if kind == "str" else format(vals[k], f)
            k += 1
            i = j + 1
        else:
            res += fmt[i]
            i += 1
    return res


def one_run(rec, rnd, idx, cycles):
    with_error = idx % 5 in (1, 3)
    via_testcase = idx % 5 == 3 or idx % 5 == 4
    min_level = rnd.choice([logging.DEBUG, logging.DEBUG, logging.INFO, logging.WARNING])
    regexp = rnd.choice([".*", ".*", "^vf", r"vf\.core", "mem$"])
    if via_testcase:
        min_level, regexp = logging.DEBUG, ".*"  # the environment of TestCaseWithSimulatorBase is fixed per process
    case = {"run": idx, "with_error": with_error, "via_test_case_base": via_testcase, "min_level": min_level, "namespace_regexp": regexp}
    cap = Capture()
    root = logging.getLogger()
    expected = []
    state = {"error_cycle": None, "driven": 0}
    err_at = rnd.randrange(5, cycles - 5) if with_error else None

    def build_tb(d):
        import re

        async def tb(ctx):
            ticks = DependencyContext.get().get_dependency(TicksKey())
            pgo, pc, pt = rnd.choice([0.3, 0.8]), rnd.choice([0.3, 0.8]), rnd.choice([0.1, 0.3, 0.7])
            for cyc in range(cycles):
                go, c, men = int(rnd.random() < pgo), int(rnd.random() < pc), int(rnd.random() < 0.6)
                ctx.set(d.go, go)
                ctx.set(d.c, c)
                ctx.set(d.caller.en, men)
                ctx.set(d.sel, rnd.getrandbits(1))
                cur = []
                for p in d.recs:
                    is_err = p["level"] >= logging.ERROR
                    t = int(rnd.random() < pt)
                    if is_err:
                        t = int(err_at is not None and cyc == err_at)
                    ctx.set(p["trig"], t)
                    vals, raw = [], []
                    for sig, f, k, w in p["fields"]:
                        if k == "str":
                            s_ = rnd.choice(STRINGS)
                            ctx.set(sig, int.from_bytes(s_.encode(), "little"))
                            vals.append(s_)
                        else:
                            v = rnd.randrange(-(1 << (w - 1)), 1 << (w - 1)) if k == "s" else rnd.getrandbits(w)
                            ctx.set(sig, v)
                            vals.append(v)
                    cur.append((t, vals))
                tk = ctx.get(ticks)
                mrun = bool(ctx.get(d.caller.done))
                stop = False
                for p, (t, vals) in zip(d.recs, cur):
                    active = {"top": t, "toplog": t, "assertion": t, "if": t and c, "body": t and go, "method_body": t and mrun}[p["ctx"]]
                    selected = p["level"] >= min_level and re.search(regexp, p["logger"].name) is not None
                    if active and not selected:
                        rec.count("filtered_out_records")
                    if active and selected and not stop:
                        expected.append((tk, p["logger"].name, p["level"], render(p, vals)))
                        rec.count("messages")
                        rec.nontrivial(f"{p['ctx']}|lvl{p['level']}|" + "/".join((f or 'default') for _, f, k, _ in p["fields"]))
                        if p["level"] >= logging.ERROR:
                            stop = True
                            state["error_cycle"] = tk
                    elif t and not active:
                        rec.count("trigger_true_but_context_inactive")
                state["driven"] = cyc + 1
                rec.count("cycles")
                await ctx.tick()

        return tb

    raised = None
    root.addHandler(cap)
    old_level = root.level
    root.setLevel(0)
    try:
        if via_testcase:
            tc = TestCaseWithSimulatorBase()
            try:
                with tc.ctx_testing_env(f"vf_c34_{idx}"):
                    d = Design(rnd, with_error)
                    with tc.run_simulation(d, max_cycles=cycles + 20) as sim:
                        sim.add_testbench(build_tb(d))
            except AssertionError as e:
                raised = e
        else:
            with DependencyContext(DependencyManager()):
                d = Design(rnd, with_error)
                sim = PysimSimulator(d, max_cycles=cycles + 20)
                sim.add_process(make_tick_count_process())

                def on_error():
                    raise StopSim()

                sim.add_process(make_logging_process(min_level, regexp, on_error))
                sim.add_testbench(build_tb(d))
                try:
                    sim.run()
                except StopSim as e:
                    raised = e
    finally:
        root.removeHandler(cap)
        root.setLevel(old_level)
    case["records"] = [{"logger": p["logger"].name, "level": p["level"], "format": p["fmt"], "context": p["ctx"],
                        "fields": [(f, k, w) for _, f, k, w in p["fields"]]} for p in d.recs]
    got = [(c, n, lv, msg) for c, n, lv, msg, _, _ in cap.got if n.startswith(("vf", "other"))]
    rec.check("reported_in_exactly_the_triggered_cycles_with_python_formatted_message", got == expected, case=case,
              detail={"delivered": len(got), "expected": len(expected), "first_difference": first_diff(got, expected)})
    error_expected = state["error_cycle"] is not None
    if error_expected:
        rec.count("runs_with_error")
        rec.check("error_record_ends_the_simulation_with_a_failure", raised is not None, case=case, detail={"error_cycle": state["error_cycle"]})
        rec.check("simulation_ends_in_the_first_error_cycle_not_before", state["driven"] == state["error_cycle"] + 1, case=case,
                  detail={"cycles_driven": state["driven"], "error_cycle": state["error_cycle"]})
    else:
        rec.count("runs_without_error")
        rec.check("no_error_record_means_normal_end", raised is None and state["driven"] == cycles, case=case, detail={"raised": repr(raised), "cycles_driven": state["driven"]})
    locs_ok = all(isinstance(f, str) and isinstance(ln, int) and f.endswith("c34.py") for *_, f, ln in cap.got if _[1].startswith(("vf", "other"))) if cap.got else True
    rec.check("message_carries_source_location", locs_ok, case=case)
    rec.count("runs")
    if len(rec.samples) < 2:
        rec.sample({"records": case["records"], "first_messages": expected[:4]})


def first_diff(a, b):
    for i, (x, y) in enumerate(zip(a, b)):
        if x != y:
            return {"index": i, "got": x, "expected": y}
    if len(a) != len(b):
        return {"extra_got": a[len(b):][:2], "missing": b[len(a):][:2]}
    return None


def shards(tier, seed):
    n = 80 if tier == "quick" else 2500
    per = 5 if tier == "quick" else 25
    return [{"seed": seed, "first": i, "n": per, "cycles": 50 if tier == "quick" else 120} for i in range(0, n, per)]


def run_shard(spec, rec):
    for i in range(spec["first"], spec["first"] + spec["n"]):
        rnd = random.Random(f"C34:{spec['seed']}:{i}")
        try:
            one_run(rec, rnd, i, spec["cycles"])
        except Exception:
            if not rec.viol_total:
                rec.check("runs_without_harness_error", False, case={"run": i}, detail=traceback.format_exc()[-1500:])


RULE = ("1-6 log records per design at levels DEBUG..ERROR (log, top_log, assertion) placed at module top, under If, in a transaction body, in a method body; "
        "0-3 fields each: unsigned/signed 1-32 bits with format specs from 20 variants (d x X b o #x #b #o 08b >6d <5d +d ' d' 04x =+7d #06x _d _b *>9x) and :s strings; "
        "random trigger/context/value histories; level filter and namespace regexp varied; two fifths of the runs go through "
        "TestCaseWithSimulatorBase.run_simulation, the others use make_logging_process directly; in two fifths an ERROR trigger fires at a chosen "
        "cycle; distinct non-trivial case = (context, level, format specs of the record)")
ASSUMPTIONS = ["messages are observed through a logging.Handler on the root logger; the cycle stamp is the logging process's own cycle counter"]
MINIMA = {"quick": {"messages": 1500, "runs_with_error": 15, "runs_without_error": 30, "filtered_out_records": 100, "trigger_true_but_context_inactive": 200, "distinct": 60},
          "thorough": {"messages": 100000, "distinct": 300}}
