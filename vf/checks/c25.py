"""C25 - PriorityEncoderAllocator never double-allocates."""

from transactron.lib.allocators import PriorityEncoderAllocator

from ..comp.common import ComponentCheck
from ..comp.models import PEAllocM

ENTRIES = [1, 2, 3, 5, 8, 16]


def pick(rnd, i):
    n = ENTRIES[i % len(ENTRIES)]
    aw, fw = rnd.randint(1, min(4, n)), rnd.randint(1, 3)
    init = [-1, rnd.getrandbits(n), 0, ~rnd.getrandbits(n)][(i // len(ENTRIES)) % 4]  # incl. negative partial masks
    case = {"kind": "PEAlloc", "entries": n, "alloc_ways": aw, "free_ways": fw, "init": init, "init_mask": init & ((1 << n) - 1)}

    def make(r):
        return PriorityEncoderAllocator(n, aw, fw, init=init), PEAllocM(n, aw, fw, init)

    return case, make, ""


CHECK = ComponentCheck("C25", pick, drain=0, suite=(("PriorityEncoderAllocator",), ("test/lib/test_allocators.py",)))
shards, run_shard = CHECK.shards, CHECK.run_shard
RULE = ("[in 30% of the histories every provided exclusive method has a second, competing caller transaction: a request is issued by the main caller, the rival or both; condition exclusive_method_serves_at_most_one_caller_per_cycle] histories = hostile random alloc[i]/free[j]/peek/replace/clear sequences for entries in {1,2,3,5,8,16}, 1-4 alloc ways, 1-3 free ways, init "
        "in {all free (-1), random non-negative mask, none, negative partial mask ~m}; only allocated identifiers are freed, each at most once per cycle; non-trivial distinct case = (config, number of "
        "simultaneous allocs and frees, clear/replace, number of free identifiers)")
ASSUMPTIONS = ["frees respect the documented precondition (generator consults the model)", "clear and replace conflict (clear calls replace): only progress of the pair is required"]
MINIMA = {"quick": {"cycles": 5000, "calls:alloc": 1000, "calls:free": 1000, "calls:peek": 500, "distinct": 40}, "thorough": {"cycles": 500000, "distinct": 150}}
