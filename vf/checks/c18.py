"""C18 - method transformers and connectors implement their documented function."""

from __future__ import annotations

import collections
import random
import traceback

from amaranth import Cat, C, Elaboratable, Signal
from transactron import TModule
from transactron.lib import (
    Adapter, AdapterTrans, ConnectTrans, CrossbarConnectTrans, MethodMap, MethodFilter, MethodProduct, MethodTryProduct,
    Collector, NonexclusiveWrapper,
)
from transactron.testing import PysimSimulator
from transactron.utils.dependencies import DependencyContext, DependencyManager

ENGINE = "compmon"
TECHNIQUE = "runtime monitoring: per-cycle monitor on caller/target adapters of each transformer (enable, done, argument, result) against its documented function"
L = [("x", 8)]
KLASS_FILTER = "methodfilter:use_condition_truncates_multi_bit_condition"


class Circ(Elaboratable):
    """Hand-made test circuit: `callers` are AdapterTrans (we call), `targets` are Adapters (we are called)."""

    def __init__(self, dut, callers, targets):
        self.dut, self.callers, self.targets = dut, callers, targets

    def elaborate(self, platform):
        m = TModule()
        m.submodules.dut = self.dut
        for i, c in enumerate(self.callers):
            m.submodules[f"caller{i}"] = c
        for i, t in enumerate(self.targets):
            m.submodules[f"target{i}"] = t
        return m


def mk_target(method):
    """An Adapter that defines (mocks) the required method `method`."""
    return Adapter.create(method)


def fresh_target(i=L, o=L):
    """A stand-alone mocked method, to be handed to the transformers' `create` constructors."""
    return Adapter(i=i, o=o)


# every kind: make(rnd) -> (dut, callers, targets, info) ; check(rec, info, cyc) with cyc = record of the cycle
def make_map(via_create):
    def make(rnd):
        a, b, c, d = rnd.randrange(1, 8), rnd.randrange(256), rnd.randrange(1, 8), rnd.randrange(256)
        it, ot = (L, lambda m, v: {"x": v.x * a + b}), (L, lambda m, v: {"x": v.x * c + d})
        if via_create:
            t = fresh_target()
            dut = MethodMap.create(t.iface, i_transform=it, o_transform=ot)
            return dut, [AdapterTrans.create(dut.method)], [t], (a, b, c, d)
        dut = MethodMap(L, L, i_transform=it, o_transform=ot)
        return dut, [AdapterTrans.create(dut.method)], [mk_target(dut.target)], (a, b, c, d)
    return make


def check_map(rec, info, cy, case):
    a, b, c, d = info
    en, arg, done, out = cy["c_en"][0], cy["c_arg"][0], cy["c_done"][0], cy["c_out"][0]
    rec.check("map:runs_iff_enabled_and_target_ready", done == (en and cy["t_en"][0]), case=case, detail=cy)
    rec.check("map:target_called_iff_method_runs", cy["t_done"][0] == done, case=case, detail=cy)
    if done:
        rec.check("map:input_map_applied", cy["t_arg"][0] == (arg * a + b) & 255, case=case, detail=cy)
        rec.check("map:output_map_applied", out == (cy["t_ret"][0] * c + d) & 255, case=case, detail=cy)
        rec.count("calls")


def make_filter(uc, via_create=False):
    def make(rnd):
        bit = rnd.randrange(2)
        pos = rnd.randrange(3)
        dflt = rnd.randrange(1, 256)
        # half of the conditions are multi-bit values ("non-zero return value is interpreted as true"), often non-zero with bit 0 clear
        # (every even repetition, and a third of the odd ones)
        mask = rnd.choice([0b0110, 0b1100, 0b1010_0000, 0b0000_0110]) if (getattr(rnd, "rep", 0) % 2 == 0 or rnd.random() < 0.33) else 0
        if mask:
            cond = lambda m, v: v.x & mask  # noqa: E731
        else:
            cond = lambda m, v: v.x[pos] == bit  # noqa: E731
        if via_create:
            t = fresh_target()
            dut = MethodFilter.create(t.iface, cond, default={"x": dflt}, use_condition=uc)
            return dut, [AdapterTrans.create(dut.method)], [t], (uc, bit, pos, dflt, mask)
        dut = MethodFilter(L, L, cond, default={"x": dflt}, use_condition=uc)
        return dut, [AdapterTrans.create(dut.method)], [mk_target(dut.target)], (uc, bit, pos, dflt, mask)
    return make


def check_filter(rec, info, cy, case):
    uc, bit, pos, dflt, mask = info
    en, arg, done, out = cy["c_en"][0], cy["c_arg"][0], cy["c_done"][0], cy["c_out"][0]
    cond = (arg & mask) != 0 if mask else ((arg >> pos) & 1) == bit
    klass = KLASS_FILTER if (uc and mask and cond and not (arg & mask) & 1) else ""
    if mask and cond and not (arg & mask) & 1:
        rec.count("filter_multi_bit_condition_values_with_bit0_clear")
    ten = cy["t_en"][0]
    exp_done = en and (ten or (uc and not cond))
    rec.check("filter:runs_iff_allowed", done == exp_done, klass=klass, case=case, detail=dict(cy, condition=cond, condition_mask=mask))
    rec.check("filter:target_called_only_when_condition_holds", cy["t_done"][0] == (done and cond), klass=klass, case=case, detail=dict(cy, condition=cond, condition_mask=mask))
    if done and cond:
        rec.check("filter:argument_and_result_forwarded", cy["t_arg"][0] == arg and out == cy["t_ret"][0], klass=klass, case=case, detail=cy)
        rec.count("calls_condition_true")
    if done and not cond:
        rec.check("filter:default_returned", out == dflt, klass=klass, case=case, detail=cy)
        rec.count("calls_condition_false")
        if not ten:
            rec.count("filter_not_blocked_by_unready_target")
    if en and not cond and not ten and not uc:
        rec.count("filter_blocked_by_unready_target")


def make_product(n, tr, default_comb, via_create=False):
    def make(rnd):
        cls = MethodTryProduct if tr else MethodProduct
        if default_comb:
            comb = None
        elif tr:
            comb = (L, lambda m, res: {"x": Cat(*[s for s, _ in res])})
        else:
            comb = (L, lambda m, res: {"x": sum((r.x for r in res), start=C(0, 8))[:8]})
        if via_create:
            ts = [fresh_target() for _ in range(n)]
            dut = cls.create([t.iface for t in ts], comb)
            return dut, [AdapterTrans.create(dut.method)], ts, (n, tr, default_comb)
        dut = cls(L, [L] * n, comb)
        return dut, [AdapterTrans.create(dut.method)], [mk_target(t) for t in dut.targets], (n, tr, default_comb)
    return make


class TwoTryProducts(Elaboratable):
    """Two MethodTryProducts contending for one shared exclusive target (each also has a private target)."""

    def __init__(self, shared, priv):
        comb = (L, lambda m, res: {"x": Cat(*[s for s, _ in res])})
        self.p = [MethodTryProduct.create([shared.iface, priv[k].iface], comb) for k in range(2)]

    def elaborate(self, platform):
        m = TModule()
        m.submodules.p0, m.submodules.p1 = self.p
        return m


def make_try_shared(rnd):
    shared, priv = fresh_target(), [fresh_target(), fresh_target()]
    dut = TwoTryProducts(shared, priv)
    return dut, [AdapterTrans.create(dut.p[0].method), AdapterTrans.create(dut.p[1].method)], [shared] + priv, ()


def check_try_shared(rec, info, cy, case):
    en, arg, done, out = cy["c_en"], cy["c_arg"], cy["c_done"], cy["c_out"]
    ten, td, ta = cy["t_en"], cy["t_done"], cy["t_arg"]
    for k in range(2):
        rec.check("try_product:always_executes_when_enabled", done[k] == en[k], case=case, detail=cy)
        if done[k]:
            rec.check("try_product:private_target_called_iff_ready", td[1 + k] == ten[1 + k] and bool(out[k] >> 1 & 1) == ten[1 + k], case=case, detail=cy)
    callers = [k for k in range(2) if done[k]]
    # the shared exclusive target serves at most one product per cycle; the success bit must say which one
    served = [k for k in callers if out[k] & 1]
    rec.check("try_product:success_reported_exactly_for_the_call_that_happened", len(served) == int(td[0]) and (not td[0] or ta[0] == arg[served[0]]), case=case,
              detail=dict(cy, products_reporting_success_on_shared_target=served))
    if callers and ten[0]:
        rec.check("try_product:ready_shared_target_is_called_by_some_product", td[0], case=case, detail=cy)
    if len(callers) == 2 and ten[0]:
        rec.count("try_product_contention_cycles")
    rec.nontrivial(f"tryshared|{''.join(str(int(x)) for x in en)}|{''.join(str(int(x)) for x in ten)}")
    if callers:
        rec.count("calls")


def check_product(rec, info, cy, case):
    n, tr, dc = info
    en, arg, done, out = cy["c_en"][0], cy["c_arg"][0], cy["c_done"][0], cy["c_out"][0]
    ten, td, ta, tret = cy["t_en"], cy["t_done"], cy["t_arg"], cy["t_ret"]
    if tr:
        rec.check("try_product:always_executes_when_enabled", done == en, case=case, detail=cy)
        for i in range(n):
            rec.check("try_product:calls_exactly_the_ready_targets", td[i] == (en and ten[i]), case=case, detail=cy)
            if td[i]:
                rec.check("try_product:argument_forwarded", ta[i] == arg, case=case, detail=cy)
        if done and not dc:
            rec.check("try_product:success_bits", out == sum((1 << i) for i in range(n) if ten[i]), case=case, detail=cy)
        if done:
            rec.count("calls")
            rec.nontrivial(f"try{n}|ready={''.join(str(int(x)) for x in ten)}")
    else:
        rec.check("product:runs_iff_all_targets_ready", done == (en and all(ten)), case=case, detail=cy)
        rec.check("product:calls_all_targets", all(x == done for x in td), case=case, detail=cy)
        if done:
            rec.check("product:argument_forwarded", all(a == arg for a in ta), case=case, detail=cy)
            rec.check("product:combiner_result", out == (tret[0] if dc else sum(tret) & 255), case=case, detail=cy)
            rec.count("calls")
        if en:
            rec.nontrivial(f"prod{n}|ready={''.join(str(int(x)) for x in ten)}")


def make_connect(rnd):
    # in every odd repetition (and a fifth of the others) the second method validates its argument (accepts odd values only): whether the pair can run then depends on the
    # data that the first method returns in that cycle
    val = getattr(rnd, "rep", 0) % 2 == 1 or rnd.random() < 0.2  # every odd repetition
    kw = {"validate_arguments": lambda x: x[0]} if val else {}
    if rnd.random() < 0.5:
        t1, t2 = fresh_target(), Adapter(i=L, o=L, **kw)
        return ConnectTrans.create(t1.iface, t2.iface), [], [t1, t2], (val,)
    dut = ConnectTrans(L, L)
    return dut, [], [mk_target(dut.method1), Adapter.create(dut.method2, **kw)], (val,)


def check_connect(rec, info, cy, case):
    ten, td, ta, tret = cy["t_en"], cy["t_done"], cy["t_arg"], cy["t_ret"]
    val = bool(info and info[0])
    accepted = (not val) or bool(tret[0] & 1)  # the argument of the second method is what the first one returns
    rec.check("connect:transfers_exactly_when_both_can_run", td[0] == td[1] == bool(ten[0] and ten[1] and accepted), case=case, detail=dict(cy, second_method_validates_odd=val))
    if td[0] and td[1]:
        rec.check("connect:data_crosses_both_ways", ta[0] == tret[1] and ta[1] == tret[0], case=case, detail=cy)
        rec.count("calls")
    if val and ten[0] and ten[1]:
        rec.count("connect_cycles_decided_by_the_exchanged_data")
    rec.nontrivial(f"connect|{int(ten[0])}{int(ten[1])}|v{int(val)}a{int(accepted)}")


def make_crossbar(rnd):
    n1, n2 = rnd.randint(1, 3), rnd.randint(1, 3)
    if rnd.random() < 0.5:
        ts = [fresh_target() for _ in range(n1 + n2)]
        return CrossbarConnectTrans.create([t.iface for t in ts[:n1]], [t.iface for t in ts[n1:]]), [], ts, (n1, n2)
    dut = CrossbarConnectTrans(n1, n2, L, L)
    return dut, [], [mk_target(x) for x in dut.methods1] + [mk_target(x) for x in dut.methods2], (n1, n2)


def check_crossbar(rec, info, cy, case):
    n1, n2 = info
    ten, td, ta, tret = cy["t_en"], cy["t_done"], cy["t_arg"], cy["t_ret"]
    s1 = [i for i in range(n1) if td[i]]
    s2 = [n1 + j for j in range(n2) if td[n1 + j]]
    rec.check("crossbar:only_enabled_methods_run", all(ten[k] for k in s1 + s2), case=case, detail=cy)
    ok = len(s1) == len(s2)
    used = set()
    for i in s1:
        partner = [j for j in s2 if j not in used and ta[i] == tret[j] and ta[j] == tret[i]]
        if not partner:
            ok = False
            break
        used.add(partner[0])
    rec.check("crossbar:running_methods_pair_up_and_exchange_data", ok, case=case, detail=cy)
    idle1 = any(ten[i] and not td[i] for i in range(n1))
    idle2 = any(ten[n1 + j] and not td[n1 + j] for j in range(n2))
    rec.check("crossbar:no_enabled_pair_left_idle", not (idle1 and idle2), case=case, detail=cy)
    if s1:
        rec.count("calls", len(s1))
    rec.nontrivial(f"xbar{n1}x{n2}|{''.join(str(int(x)) for x in ten)}")


def make_nonex(rnd):
    k = rnd.randint(1, 3)
    if rnd.random() < 0.5:
        t = fresh_target()
        dut = NonexclusiveWrapper.create(t.iface)
        return dut, [AdapterTrans.create(dut.method) for _ in range(k)], [t], (k,)
    dut = NonexclusiveWrapper(L, L)
    return dut, [AdapterTrans.create(dut.method) for _ in range(k)], [mk_target(dut.target)], (k,)


def check_nonex(rec, info, cy, case):
    (k,) = info
    en, done = cy["c_en"], cy["c_done"]
    ten = cy["t_en"][0]
    rec.check("nonexclusive_wrapper:target_called_iff_some_caller_calls", cy["t_done"][0] == any(done), case=case, detail=cy)
    for i in range(k):
        rec.check("nonexclusive_wrapper:caller_runs_iff_enabled_and_target_ready", done[i] == (en[i] and ten), case=case, detail=cy)
        if done[i]:
            rec.check("nonexclusive_wrapper:result_forwarded", cy["c_out"][i] == cy["t_ret"][0], case=case, detail=cy)
    if sum(done) == 1:
        i = done.index(True)
        rec.check("nonexclusive_wrapper:argument_of_single_caller_forwarded", cy["t_arg"][0] == cy["c_arg"][i], case=case, detail=cy)
        rec.count("calls")
    rec.nontrivial(f"nonex{k}|{''.join(str(int(x)) for x in en)}{int(ten)}")


def make_collector(rnd):
    n = rnd.randint(1, 4)
    if rnd.random() < 0.5:
        ts = [fresh_target(i=[], o=L) for _ in range(n)]
        dut = Collector.create([t.iface for t in ts])
        return dut, [AdapterTrans.create(dut.method)], ts, {"n": n, "fifo": collections.deque(), "given": 0, "got": 0}
    dut = Collector(n, L)
    return dut, [AdapterTrans.create(dut.method)], [mk_target(t) for t in dut.targets], {"n": n, "fifo": collections.deque(), "given": 0, "got": 0}


def check_collector(rec, info, cy, case):
    n, q = info["n"], info["fifo"]
    td = cy["t_done"]
    rec.check("collector:at_most_one_target_per_cycle", sum(td) <= 1, case=case, detail=cy)
    # a result returned by a target in this cycle may be delivered in this very cycle (Forwarder) or later
    for i in range(n):
        if td[i]:
            q.append(cy["t_ret"][i])
            info["given"] += 1
    if cy["c_done"][0]:
        ok = bool(q) and q[0] == cy["c_out"][0]
        rec.check("collector:delivers_results_in_order_exactly_once", ok, case=case, detail=dict(cy, pending=list(q)))
        if q:
            q.popleft()
        info["got"] += 1
        rec.count("calls")
    rec.check("collector:at_most_one_result_buffered", len(q) <= 1, case=case, detail=dict(cy, pending=list(q)))
    en_any = any(cy["t_en"])
    if cy["c_en"][0] and (q or en_any) and not cy["c_done"][0] and not any(td):
        pass
    rec.nontrivial(f"coll{n}|{''.join(str(int(x)) for x in cy['t_en'])}{int(cy['c_en'][0])}|buf{len(q)}")


KINDS = {
    "MethodMap": (make_map(False), check_map),
    "MethodMap.create": (make_map(True), check_map),
    "MethodFilter": (make_filter(False), check_filter),
    "MethodFilter(use_condition)": (make_filter(True), check_filter),
    "MethodFilter.create": (make_filter(False, True), check_filter),
    "MethodFilter.create(use_condition)": (make_filter(True, True), check_filter),
    "MethodProduct.create/2": (make_product(2, False, False, True), check_product),
    "MethodTryProduct.create/2": (make_product(2, True, False, True), check_product),
    "MethodTryProduct/shared_target": (make_try_shared, check_try_shared),
    "MethodProduct/1": (make_product(1, False, False), check_product),
    "MethodProduct/3": (make_product(3, False, False), check_product),
    "MethodProduct/2/default_combiner": (make_product(2, False, True), check_product),
    "MethodTryProduct/1": (make_product(1, True, False), check_product),
    "MethodTryProduct/3": (make_product(3, True, False), check_product),
    "MethodTryProduct/4": (make_product(4, True, False), check_product),
    "MethodTryProduct/2/default_combiner": (make_product(2, True, True), check_product),
    "ConnectTrans": (make_connect, check_connect),
    "CrossbarConnectTrans": (make_crossbar, check_crossbar),
    "NonexclusiveWrapper": (make_nonex, check_nonex),
    "Collector": (make_collector, check_collector),
}


def run_history(rec, kind, rnd, cycles, case):
    make, check = KINDS[kind]
    with DependencyContext(DependencyManager()):
        try:
            rnd.rep = case.get("rep", 0)
            dut, callers, targets, info = make(rnd)
            # a second, competing caller of the transformer's (exclusive) method in half of the histories: one caller is served per cycle
            rival = None
            if case.get("rep", 0) % 2 == 1 and len(callers) == 1 and "nonexclusive" not in kind.lower() and not getattr(dut, "use_condition", False):
                rival = AdapterTrans.create(callers[0].iface)
                rec.count("histories_with_rival_caller")
            circ = Circ(dut, callers + ([rival] if rival is not None else []), targets)
            sim = PysimSimulator(circ, max_cycles=cycles + 10)
            from .. import txsan, passive
            txsan.maybe_attach(sim, case)
            passive.maybe_attach(sim, case)
        except Exception:
            rec.check("constructs", False, case=case, detail=traceback.format_exc()[-1200:])
            return
        rec.check("constructs", True)

        async def drv(ctx):
            sigs = []
            for c in callers:
                sigs += [c.done, c.data_out]
            for t in targets:
                sigs += [t.done, t.data_out]
            if rival is not None:
                sigs += [rival.done, rival.data_out]
            trig = ctx.tick().sample(*sigs)
            pc, pt = rnd.choice([0.3, 0.7, 1.0]), rnd.choice([0.3, 0.7, 1.0])
            nret = 0
            for cyc in range(cycles):
                if cyc % 40 == 39:
                    pc, pt = rnd.choice([0.3, 0.7, 1.0]), rnd.choice([0.1, 0.5, 0.9, 1.0])
                cy = {"cycle": cyc, "c_en": [], "c_arg": [], "t_en": [], "t_ret": []}
                for ci, c in enumerate(callers):
                    en, arg = rnd.random() < pc, (rnd.randrange(128) << 1 | (ci & 1))
                    who = "main"
                    if rival is not None and en:
                        x = rnd.random()
                        who = "both" if x < 0.45 else "rival" if x < 0.6 else "main"
                    ctx.set(c.en, en and who != "rival")
                    if "x" in dict(c.data_in.shape()):
                        ctx.set(c.data_in, {"x": arg})
                    if rival is not None:
                        ctx.set(rival.en, en and who != "main")
                        if "x" in dict(rival.data_in.shape()):
                            ctx.set(rival.data_in, {"x": arg})
                        if who == "both":
                            rec.count("cycles_with_two_callers_requesting_the_method")
                    cy["c_en"].append(en)
                    cy["c_arg"].append(arg)
                for t in targets:
                    en = rnd.random() < pt
                    nret = (nret + 1) % 251  # values returned by targets: distinct within any window of 250 calls
                    ret = nret + 1
                    ctx.set(t.en, en)
                    if "x" in dict(t.data_in.shape()):
                        ctx.set(t.data_in, {"x": ret})
                    cy["t_en"].append(en)
                    cy["t_ret"].append(ret)
                _, _, *v = await trig
                k = len(callers)
                if rival is not None:
                    v = list(v)
                    rdone, rout = bool(v[-2]), v[-1]
                    v = v[:-2]
                    rec.check("exclusive_method_serves_at_most_one_caller_per_cycle", not (rdone and bool(v[0])), case=case, detail={"cycle": cyc, "main_done": bool(v[0]), "rival_done": rdone})
                    if rdone and not v[0]:
                        v[0], v[1] = 1, rout  # the model sees one port, whichever caller was served
                        rec.count("calls_served_to_the_rival_caller")
                cy["c_done"] = [bool(v[2 * i]) for i in range(k)]
                cy["c_out"] = [getattr(v[2 * i + 1], "x", 0) if "x" in dict(v[2 * i + 1].shape()) else 0 for i in range(k)]
                cy["t_done"] = [bool(v[2 * k + 2 * i]) for i in range(len(targets))]
                cy["t_arg"] = [v[2 * k + 2 * i + 1].x if "x" in dict(v[2 * k + 2 * i + 1].shape()) else 0 for i in range(len(targets))]
                check(rec, info, cy, case)
                rec.count("cycles")
                if rec.viol_total:
                    return
            if isinstance(info, dict) and "fifo" in info:
                rec.check("collector:conservation", info["given"] == info["got"] + len(info["fifo"]), case=case, detail={"given": info["given"], "got": info["got"]})

        sim.add_testbench(drv)
        try:
            sim.run()
        except Exception:
            if not rec.viol_total:
                rec.check("simulates", False, case=case, detail=traceback.format_exc()[-1200:])
    rec.count("histories")


def shards(tier, seed):
    reps = 2 if tier == "quick" else 40
    cycles = 300 if tier == "quick" else 1000
    out = []
    for kind in KINDS:
        for r in range(reps):
            out.append({"kind": kind, "seed": seed, "rep": r, "cycles": cycles})
    return out


def run_shard(spec, rec):
    rnd = random.Random(f"C18:{spec['seed']}:{spec['kind']}:{spec['rep']}")
    case = {"transformer": spec["kind"], "rep": spec["rep"], "seed": spec["seed"]}
    rec.count("kind:" + spec["kind"])
    run_history(rec, spec["kind"], rnd, spec["cycles"], case)
    if spec["rep"] == 0:
        rec.sample(case)


RULE = ("one harness per transformer (MethodMap with random affine maps, MethodFilter with and without use_condition, MethodProduct x1/x3 with sum combiner "
        "and default combiner, MethodTryProduct x1/x3/x4 with success-bit combiner and default combiner, ConnectTrans, CrossbarConnectTrans 1-3 x 1-3, "
        "NonexclusiveWrapper with 1-3 callers, Collector with 1-4 targets); callers are AdapterTrans, targets are Adapters whose readiness and return value "
        "the driver sets every cycle (probabilities re-drawn every 40 cycles) and whose done/argument it observes; distinct non-trivial case = (transformer, "
        "readiness pattern of the targets / callers)")
ASSUMPTIONS = ["targets are mocked by Adapter: ready = en, result = data_in, observed argument = data_out"]
MINIMA = {"quick": {"cycles": 6000, "calls": 1500, "calls_condition_true": 100, "calls_condition_false": 100, "try_product_contention_cycles": 50, "filter_not_blocked_by_unready_target": 10,
                    "filter_blocked_by_unready_target": 10, "distinct": 40},
          "thorough": {"cycles": 400000, "distinct": 80}}
