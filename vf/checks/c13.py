"""C13 - simultaneous methods run together and exchange data."""

from __future__ import annotations

import random
import traceback

from amaranth import Elaboratable, Module, Signal
from amaranth.sim import Simulator
from transactron import Method, TModule, Transaction, TransactronContextElaboratable, def_method
from transactron.lib import Connect
from transactron.utils.dependencies import DependencyContext, DependencyManager

ENGINE = "dgen+refsem"
TECHNIQUE = "runtime monitoring: generated Connect / simultaneous() topologies; per-cycle monitor on run signals of both ends and on the data observed by each caller"
KLASS_EXCL = "simultaneous:ends_share_exclusive_method_through_chain"


def gen(rnd, idx, excl_witness=False):
    if excl_witness:
        # stored witness of the open finding: writer and reader at the two ends of a Connect chain call one *exclusive* method
        return {"rev": False, "nw": 1, "nr": 1, "nm": 1, "wx": [[0]], "rx": [[0]], "chain": True, "share": True, "user_sim": False, "exclusive_shared": True}
    D = {}
    D["rev"] = rnd.random() < 0.5
    D["nw"], D["nr"], D["nm"] = rnd.randint(1, 2), rnd.randint(1, 3), rnd.randint(0, 3)
    D["wx"] = [sorted(rnd.sample(range(D["nm"]), rnd.randint(0, min(2, D["nm"])))) for _ in range(D["nw"])]
    D["rx"] = [sorted(rnd.sample(range(D["nm"]), rnd.randint(0, min(2, D["nm"])))) for _ in range(D["nr"])]
    D["chain"] = rnd.random() < 0.35  # a second Connect chained through a forwarding transaction
    D["share"] = idx % 3 == 0  # callers on both sides may call common nonexclusive methods
    D["user_sim"] = rnd.random() < 0.4  # additionally two user methods declared simultaneous(), called by two more transactions
    # the callers hand the exchanged data on to methods with validate_arguments: their readiness depends on the data delivered through the Connect
    D["vsink"] = rnd.random() < 0.4
    if D["vsink"]:
        # one caller at each end: with several callers the data a downstream validator sees would be selected by the arbitration result itself
        # (readiness depending on the grant is outside the documented rules and a structural combinational loop)
        D["nw"] = D["nr"] = 1
        D["wx"], D["rx"] = D["wx"][:1], D["rx"][:1]
    if not D["share"]:
        used = set()
        for lst in D["wx"] + D["rx"]:
            lst[:] = [j for j in lst if j not in used]
            used |= set(lst)
    return D


class Emit(Elaboratable):
    def __init__(self, D):
        self.D = D
        self.wr = [Signal(name=f"wr{i}") for i in range(D["nw"])]
        self.rr = [Signal(name=f"rr{i}") for i in range(D["nr"])]
        self.mr = [Signal(name=f"mr{i}") for i in range(D["nm"])]
        self.wa = [Signal(4, name=f"wa{i}") for i in range(D["nw"])]
        self.ra = [Signal(4, name=f"ra{i}") for i in range(D["nr"])]
        self.wres = [Signal(4, name=f"wres{i}") for i in range(D["nw"])]
        self.rres = [Signal(4, name=f"rres{i}") for i in range(D["nr"])]
        self.fr = Signal(name="fr")
        self.ur = [Signal(name=f"ur{i}") for i in range(4)]
        self.fwd_rev = Signal(4)

    def elaborate(self, platform):
        m = TModule()
        D = self.D
        lay = [("d", 4)]
        rev = [("r", 4)] if D["rev"] else []
        m.submodules.c1 = c1 = Connect(lay, rev)
        self.c1 = c1
        src_write, snk_read = c1.write, c1.read
        self.c2 = None
        if D["chain"]:
            m.submodules.c2 = c2 = Connect(lay, rev)
            self.c2 = c2
            with (f := Transaction(name="fwd")).body(m, ready=self.fr):
                # forward direction: c1.read -> c2.write; reverse direction: result of c2.write -> argument of c1.read
                back = Signal(4)
                x = c1.read(m, **({"r": back} if D["rev"] else {}))
                y = c2.write(m, d=x.d)
                if D["rev"]:
                    m.d.av_comb += back.eq(y.r)
            self.fwd = f
            snk_read = c2.read
        ms = [Method(name=f"M{i}") for i in range(D["nm"])]
        for i in range(D["nm"]):
            @def_method(m, ms[i], ready=self.mr[i], nonexclusive=not D.get("exclusive_shared", False))
            def _():
                pass
        self.wt, self.rt = [], []
        vs = D.get("vsink", False)
        if vs:
            self.sinks = [Method(name=f"sink{i}", i=[("d", 4)]) for i in range(D["nr"])]
            self.tsinks = [Method(name=f"tsink{i}", i=[("r", 4)]) for i in range(D["nw"])]
            self.sink_got = [Signal(4, name=f"sink_got{i}") for i in range(D["nr"])]
            for i in range(D["nr"]):
                @def_method(m, self.sinks[i], validate_arguments=lambda d: d[0])
                def _(d):
                    m.d.comb += self.sink_got[i].eq(d)
            for i in range(D["nw"]):
                @def_method(m, self.tsinks[i], validate_arguments=lambda r: r != 0)
                def _(r):
                    pass
        for i in range(D["nw"]):
            with (t := Transaction(name=f"W{i}")).body(m, ready=self.wr[i]):
                r = src_write(m, d=self.wa[i])
                if D["rev"]:
                    m.d.comb += self.wres[i].eq(r.r)
                    if vs:
                        self.tsinks[i](m, r=r.r)
                for j in D["wx"][i]:
                    ms[j](m)
            self.wt.append(t)
        for i in range(D["nr"]):
            with (t := Transaction(name=f"R{i}")).body(m, ready=self.rr[i]):
                r = snk_read(m, **({"r": self.ra[i]} if D["rev"] else {}))
                m.d.comb += self.rres[i].eq(r.d)
                if vs:
                    self.sinks[i](m, d=r.d)
                for j in D["rx"][i]:
                    ms[j](m)
            self.rt.append(t)
        self.ua = self.ub = None
        if D["user_sim"]:
            self.ua, self.ub = Method(name="UA"), Method(name="UB")
            self.ua.simultaneous(self.ub)

            @def_method(m, self.ua, ready=self.ur[0])
            def _():
                pass

            @def_method(m, self.ub, ready=self.ur[1])
            def _():
                pass

            with Transaction(name="CA").body(m, ready=self.ur[2]):
                self.ua(m)
            with Transaction(name="CB").body(m, ready=self.ur[3]):
                self.ub(m)
        return m


def run_one(rec, rnd, idx, cycles, excl_witness=False):
    D = gen(rnd, idx, excl_witness)
    case = {"design": idx, "ir": D}
    klass = KLASS_EXCL if excl_witness else ""
    dm = DependencyManager()
    with DependencyContext(dm):
        e = Emit(D)
        top = TransactronContextElaboratable(e, dependency_manager=dm)
        wrap = Module()
        dummy = Signal()
        wrap.d.sync += dummy.eq(1)
        wrap.submodules.top = top
        try:
            sim = Simulator(wrap)
        except Exception:
            # for the witness of the open finding an elaboration error would be the *right* behaviour
            rec.check("C13:connected_callers_elaborate", excl_witness, case=case, detail=traceback.format_exc()[-1200:])
            if excl_witness:
                rec.note("open finding simultaneous:ends_share_exclusive_method_through_chain: design is now rejected at elaboration (finding no longer reproduces)")
            return
        rec.check("C13:connected_callers_elaborate", True)
        sim.add_clock(1e-6)
        bits = e.wr + e.rr + e.mr + [e.fr] + e.ur

        async def tb(ctx):
            pr = 0.6
            for cyc in range(cycles):
                if cyc % 30 == 0:
                    pr = rnd.choice([0.3, 0.6, 0.95])
                for s in bits:
                    ctx.set(s, rnd.random() < pr)
                for s in e.wa + e.ra:
                    ctx.set(s, rnd.randrange(16))
                wrun = [ctx.get(t.run) for t in e.wt]
                rrun = [ctx.get(t.run) for t in e.rt]
                cw, cr = ctx.get(e.c1.write.run), ctx.get(e.c1.read.run)
                rec.count("cycles")
                det = {"cycle": cyc, "writers_ready": [ctx.get(s) for s in e.wr], "readers_ready": [ctx.get(s) for s in e.rr], "other_methods_ready": [ctx.get(s) for s in e.mr],
                       "writers_run": wrun, "readers_run": rrun, "connect_write_run": cw, "connect_read_run": cr}
                rec.check("C13:connect_read_and_write_run_in_exactly_the_same_cycles", cw == cr, klass=klass, case=case, detail=det)
                if D["chain"]:
                    w2, r2 = ctx.get(e.c2.write.run), ctx.get(e.c2.read.run)
                    rec.check("C13:connect_read_and_write_run_in_exactly_the_same_cycles", w2 == r2, klass=klass, case=case, detail=dict(det, second_connect=[w2, r2]))
                    rec.check("C13:chained_connects_transfer_together", w2 == cw, klass=klass, case=case, detail=dict(det, second_connect=[w2, r2]))
                rec.check("C13:one_writer_per_transfer_and_one_reader", sum(wrun) == sum(rrun) and sum(wrun) <= 1, klass=klass, case=case, detail=det)
                if not excl_witness:
                    # all writer/reader pairs conflict with each other (they share the Connect), every other method is nonexclusive: a transfer
                    # happens iff some pair is ready, where readiness of the validated sinks is judged on the data the Connect delivers
                    vs = D.get("vsink", False)
                    mrv = [ctx.get(s) for s in e.mr]

                    def pair_ready(wi, ri):
                        ok = ctx.get(e.wr[wi]) and ctx.get(e.rr[ri]) and (not D["chain"] or ctx.get(e.fr))
                        ok = ok and all(mrv[j] for j in D["wx"][wi] + D["rx"][ri])
                        if vs:
                            ok = ok and (ctx.get(e.wa[wi]) & 1) and (not D["rev"] or ctx.get(e.ra[ri]) != 0)
                        return bool(ok)

                    some = any(pair_ready(wi, ri) for wi in range(D["nw"]) for ri in range(D["nr"]))
                    rec.check("C13:transfer_happens_iff_some_writer_reader_pair_is_ready_on_the_delivered_data", bool(any(wrun)) == some, case=case,
                              detail=dict(det, written=[ctx.get(s) for s in e.wa], reader_arguments=[ctx.get(s) for s in e.ra], validated_sinks=vs))
                    if vs and any(ctx.get(e.wr[wi]) and ctx.get(e.rr[ri]) for wi in range(D["nw"]) for ri in range(D["nr"])) and not some:
                        rec.count("cycles_where_only_the_exchanged_data_blocks_the_transfer")
                if any(wrun) and sum(wrun) == 1 and sum(rrun) == 1:
                    rec.count("transfers")
                    wi, ri = wrun.index(1), rrun.index(1)
                    rec.check("C13:data_written_is_delivered_to_the_reader_in_the_same_cycle", ctx.get(e.rres[ri]) == ctx.get(e.wa[wi]), case=case,
                              detail=dict(det, written=ctx.get(e.wa[wi]), read=ctx.get(e.rres[ri])))
                    if D["rev"]:
                        rec.check("C13:reverse_data_is_delivered_to_the_writer_in_the_same_cycle", ctx.get(e.wres[wi]) == ctx.get(e.ra[ri]), case=case,
                                  detail=dict(det, reader_argument=ctx.get(e.ra[ri]), writer_result=ctx.get(e.wres[wi])))
                        rec.count("reverse_transfers")
                    if D.get("vsink"):
                        rec.count("transfers_into_validated_sinks")
                        rec.check("C13:data_written_is_delivered_to_the_reader_in_the_same_cycle", ctx.get(e.sink_got[ri]) == ctx.get(e.wa[wi]), case=case,
                                  detail=dict(det, written=ctx.get(e.wa[wi]), sink_got=ctx.get(e.sink_got[ri])))
                    rec.check("C03:callers_run_only_with_their_other_methods_ready(consistency)", all(ctx.get(e.mr[j]) for j in D["wx"][wi] + D["rx"][ri]), case=case, detail=det)
                    rec.nontrivial(f"w{wi}r{ri}|rev{int(D['rev'])}|chain{int(D['chain'])}|share{int(D['share'])}")
                elif any(ctx.get(s) for s in e.wr) != any(ctx.get(s) for s in e.rr):
                    rec.count("one_sided_ready_cycles")
                if D["user_sim"]:
                    a, b = ctx.get(e.ua.run), ctx.get(e.ub.run)
                    rec.check("C13:bodies_declared_simultaneous_run_in_exactly_the_same_cycles", a == b, case=case, detail=dict(det, ua_run=a, ub_run=b))
                    if a:
                        rec.count("user_simultaneous_runs")
                await ctx.tick()

        sim.add_testbench(tb)
        sim.run()
    rec.count("designs")
    if D["share"] and any(set(a) & set(b) for a in D["wx"] for b in D["rx"]):
        rec.count("designs_where_both_sides_share_a_nonexclusive_method")
    if len(rec.samples) < 2:
        rec.sample(case)


def shards(tier, seed):
    n = 150 if tier == "quick" else 8000
    per = 5 if tier == "quick" else 50
    ncond = 12 if tier == "quick" else 300
    return [{"seed": seed, "first": i, "n": per, "cycles": 250 if tier == "quick" else 500} for i in range(0, n, per)] + \
        [{"seed": seed, "cond": True, "first": i * 8, "n": 8, "cycles": 300 if tier == "quick" else 800} for i in range(ncond)]


def run_shard(spec, rec):
    if spec.get("cond"):
        # nested condition() blocks inside (conditionally called) methods: chains of simultaneous() bodies built by the library itself
        from . import c12
        from ..gen.checks import transfer
        from ..rec import Rec
        for i in range(spec["first"], spec["first"] + spec["n"]):
            sub = Rec("C13", rec.shard)
            c12.run_one(sub, random.Random(f"C13:cond:{spec['seed']}:{i}"), i, spec["cycles"])
            sub.counters = type(sub.counters)({("cond_profile_" + k): v for k, v in sub.counters.items()})
            sub.distinct = set()
            transfer(sub, rec, ("C13:",))
        return
    if spec.get("witness") == "excl_share":
        run_one(rec, random.Random("C13:witness"), -1, 200, excl_witness=True)
        return
    for i in range(spec["first"], spec["first"] + spec["n"]):
        rnd = random.Random(f"C13:{spec['seed']}:{i}")
        try:
            run_one(rec, rnd, i, spec["cycles"])
        except Exception:
            if not rec.viol_total:
                rec.harness_error("C13 harness crashed: " + traceback.format_exc()[-600:])


RULE = ("generated topologies: 1-2 writer and 1-3 reader transactions around a Connect (reverse layout in half of them), optionally a second Connect chained "
        "through a forwarding transaction (forward and reverse data routed through it), callers that also call 0-2 nonexclusive methods with random "
        "readiness (one third of the designs let both sides share such methods), optionally two user methods declared simultaneous() with their own "
        "callers; in 40% of the designs each caller hands the received data on to its own method with validate_arguments (odd data / non-zero reverse data), so the "
        "callers' readiness depends on the data delivered through the Connect; oracle per cycle: read.run == write.run for every Connect and declared pair, chained "
        "Connects transfer together, the reader (and its validated sink) observes the writer's argument and the writer the reader's argument in the same cycle, and a "
        "transfer happens iff some writer/reader pair is ready judged on the delivered data; distinct non-trivial case = (writer, reader, reverse, chain, share)")
ASSUMPTIONS = ["validated sinks are generated only when each end of the Connect has one caller: with several callers the data a downstream validator sees is selected "
               "by the arbitration result, which is outside the documented readiness rules (a structural combinational loop)",
               "ends that share an *exclusive* method through a chain are not generated (residual part of finding F11)"]
MINIMA = {"quick": {"cycles": 20000, "transfers": 4000, "reverse_transfers": 1000, "one_sided_ready_cycles": 2000, "user_simultaneous_runs": 500,
                    "designs_where_both_sides_share_a_nonexclusive_method": 5, "transfers_into_validated_sinks": 300,
                    "cycles_where_only_the_exchanged_data_blocks_the_transfer": 300, "distinct": 12},
          "thorough": {"cycles": 2000000, "distinct": 20}}
