"""C33 - event log captures and decodes events faithfully."""

from __future__ import annotations

import collections
import enum
import os
import random
import tempfile
import traceback

from amaranth import Elaboratable, Signal, signed, Cat, Array, Const
from amaranth.hdl._ast import SignalDict
from transactron import TModule, Transaction, Method, def_method
from transactron.core.context import TransactronContextElaboratable
from transactron.evlog import (
    Event, EventSource, EvLogEnabledKey, Static, event, handles, EventConsumer, EventLog, EventLogReader, GeneratedEvLog, GeneratedEvLogSampler,
)
from transactron.evlog.log import EventLogWriter
from transactron.lib import AdapterTrans
from transactron.testing import PysimSimulator
from transactron.testing.evlog import capture_evlog
from transactron.testing.tick_count import TicksKey, make_tick_count_process
from transactron.utils.gen import VerilogDebugWrapper
from transactron.utils.dependencies import DependencyContext, DependencyManager

ENGINE = "inframon"
EVALUATIONS = "events"
TECHNIQUE = "runtime monitoring: independent observer testbench computes the expected event records from the inputs it drives; capture, decoding, save/load, streaming, generated-design sampler and consumer dispatch are compared with it"


class Kind(enum.IntEnum):
    A = 0
    B = 1
    C = 2
    D = 5


_cnt = [0]


def mk_event(rnd):
    _cnt[0] += 1
    nf = rnd.randint(0, 3)
    ann, spec = {}, []
    for i in range(nf):
        k = rnd.choice(["u", "s", "bool", "enum"])
        w = rnd.choice([1, 3, 8, 17, 40])
        ann[f"f{i}"] = {"u": int, "s": int, "bool": bool, "enum": Kind}[k]
        spec.append((f"f{i}", k, w))
    ann["lane"] = Static[int]
    if rnd.random() < 0.5:
        ann["unit"] = Static[str]
    if rnd.random() < 0.3:
        ann["kind"] = Static[Kind]
    cls = type(f"Ev{_cnt[0]}", (Event,), {"__annotations__": ann})
    return event(f"vf.ev{_cnt[0]}_{os.getpid()}")(cls), spec


class Design(Elaboratable):
    def __init__(self, rnd):
        self.rnd = rnd
        self.sites = []
        self.src = EventSource("vf.src")
        self.src2 = EventSource("vf.other")
        self.go, self.c, self.c2 = Signal(), Signal(), Signal()
        self.meth = Method()
        self.caller = AdapterTrans.create(self.meth)
        self.shared_cls = None
        self.lfsr = Signal(64, init=rnd.getrandbits(64) | 1)

    def elaborate(self, platform):
        m = TModule()
        rnd = self.rnd
        m.submodules.caller = self.caller
        # field values come from an in-design pseudo-random source: VerilogDebugWrapper ties undriven event signals to their reset
        # value (so that they exist in generated code), therefore the fields must be driven by the design, not by the testbench
        lf = self.lfsr
        m.d.sync += lf.eq(Cat(lf[1:], lf[0] ^ lf[1] ^ lf[3] ^ lf[4]) ^ (lf << 7)[:64] ^ 0x9E3779B97F4A7C15)
        members = Array(Const(int(k), 3) for k in Kind)
        plan = []
        for s in range(rnd.randint(1, 6)):
            if self.shared_cls is not None and rnd.random() < 0.3:
                cls, spec = self.shared_cls  # the same event type emitted at several sites
            else:
                cls, spec = mk_event(rnd)
                if self.shared_cls is None:
                    self.shared_cls = (cls, spec)
            sigs = {}
            for name, k, w in spec:
                if k == "bool":
                    sigs[name] = Signal(1, name=f"s{s}_{name}")
                elif k == "enum":
                    sigs[name] = Signal(Kind, name=f"s{s}_{name}")
                else:
                    sigs[name] = Signal(signed(w) if k == "s" else w, name=f"s{s}_{name}")
            for j, (name, k, w) in enumerate(spec):
                bits = lf.rotate_left((s * 11 + j * 5) % 64)[:max(w, 2)]
                if k == "enum":
                    m.d.comb += sigs[name].eq(members[bits[:2]])
                else:
                    m.d.comb += sigs[name].eq(bits[:w])
            when = Signal(name=f"when{s}")
            ctxk = rnd.choice(["top", "if", "nested_if", "body", "method_body", "topemit", "always"])
            statics = {"lane": s}
            if "unit" in cls._static_fields:
                statics["unit"] = f"u{s}"
            if "kind" in cls._static_fields:
                statics["kind"] = rnd.choice(list(Kind))
            plan.append((cls, spec, sigs, when, ctxk, statics))
        body_sites = [p for p in plan if p[4] == "body"]
        meth_sites = [p for p in plan if p[4] == "method_body"]
        # 40% of the sites use a multi-bit trigger value that is non-zero exactly when the trigger holds and whose bit 0 is always clear
        wide = {id(p[3]): Cat(Const(0, 1), p[3], Const(0, 1)) for p in plan if rnd.random() < 0.4}

        def W(when):
            return wide.get(id(when), when)

        for cls, spec, sigs, when, ctxk, statics in plan:
            src = self.src if statics["lane"] % 2 == 0 else self.src2
            ev = cls.hw(**statics, **sigs)
            if ctxk == "top":
                src.emit(m, ev, when=W(when))
            elif ctxk == "always":
                src.emit(m, ev)
            elif ctxk == "topemit":
                src.top_emit(ev, when=W(when))
            elif ctxk == "if":
                with m.If(self.c):
                    src.emit(m, ev, when=W(when))
            elif ctxk == "nested_if":
                with m.If(self.c):
                    with m.If(self.c2):
                        src.emit(m, ev, when=W(when))
                    with m.Else():
                        pass
        with Transaction(name="t").body(m, ready=self.go):
            for cls, spec, sigs, when, ctxk, statics in body_sites:
                (self.src if statics["lane"] % 2 == 0 else self.src2).emit(m, cls.hw(**statics, **sigs), when=W(when))

        @def_method(m, self.meth)
        def _():
            for cls, spec, sigs, when, ctxk, statics in meth_sites:
                (self.src if statics["lane"] % 2 == 0 else self.src2).emit(m, cls.hw(**statics, **sigs), when=W(when))

        # registration order = the order of emit calls above
        order = [p for p in plan if p[4] not in ("body", "method_body")] + body_sites + meth_sites
        self.sites = order
        return m


def rnd_value(rnd, k, wd):
    if k == "bool":
        return rnd.getrandbits(1)
    if k == "enum":
        return int(rnd.choice(list(Kind)))
    if k == "s":
        return rnd.choice([rnd.randrange(-(1 << (wd - 1)), 1 << (wd - 1)), -(1 << (wd - 1)), (1 << (wd - 1)) - 1, -1, 0])
    return rnd.choice([rnd.getrandbits(wd), (1 << wd) - 1, 0])


def one_run(rec, rnd, idx, cycles):
    case = {"run": idx}
    with DependencyContext(DependencyManager()):
        DependencyContext.get().add_dependency(EvLogEnabledKey(), True)
        d = Design(rnd)
        wrapped = VerilogDebugWrapper(TransactronContextElaboratable(d, dependency_manager=DependencyContext.get()))
        sim = PysimSimulator(wrapped, max_cycles=cycles + 20, add_transaction_module=False)
        sim.add_process(make_tick_count_process())
        log, process = capture_evlog(metadata={"run": idx})
        sim.add_process(process)
        case["sites"] = [{"event": cls.event_name, "fields": spec, "context": ctxk, "statics": {k: (int(v) if isinstance(v, enum.Enum) else v) for k, v in st.items()}}
                         for cls, spec, sigs, when, ctxk, st in d.sites]
        # generated-design path: the repository's collect_evlog over a name map, sampled through a resolver reading the live signals
        name_map = SignalDict()
        back = {}
        sigs_all = [t for _, t, _ in wrapped.evlog_records] + [f for _, _, fs in wrapped.evlog_records for f in fs]
        if wrapped.evlog_triggers is not None:
            sigs_all.append(wrapped.evlog_triggers)
        for i, s in enumerate(sigs_all):
            if s not in name_map:
                name_map[s] = ("top", "elaboratable", f"n{i}_{s.name}")
                back[("top", "elaboratable", f"n{i}_{s.name}")] = s
        gen = wrapped.collect_evlog(name_map)
        gen_persite = GeneratedEvLog(schema=gen.schema, site_locations=gen.site_locations, triggers_location=None)
        rec.check("generated:one_location_per_site", len(gen.site_locations) == len(d.sites) == len(gen.schema.sites)
                  and (gen.triggers_location is not None) == bool(d.sites), case=case, detail={"locations": len(gen.site_locations), "sites": len(d.sites)})
        ctx_box = {}

        def resolve(handle):
            sig = back[tuple(handle)]
            return lambda: int(ctx_box["ctx"].get(sig))

        sinks = {"packed": EventLog(gen.schema), "persite": EventLog(gen.schema)}
        samplers = {"packed": GeneratedEvLogSampler(gen, resolve), "persite": GeneratedEvLogSampler(gen_persite, resolve)}
        expected = []

        async def tb(ctx):
            ctx_box["ctx"] = ctx
            ticks = DependencyContext.get().get_dependency(TicksKey())
            pgo, pc, pw = rnd.choice([0.2, 0.6, 1.0]), rnd.choice([0.3, 0.8]), rnd.choice([0.2, 0.5, 0.9])
            for cyc in range(cycles):
                go, c, c2, men = int(rnd.random() < pgo), int(rnd.random() < pc), rnd.getrandbits(1), int(rnd.random() < 0.6)
                ctx.set(d.go, go)
                ctx.set(d.c, c)
                ctx.set(d.c2, c2)
                ctx.set(d.caller.en, men)
                vals = []
                for cls, spec, sigs, when, ctxk, statics in d.sites:
                    w = int(rnd.random() < pw)
                    ctx.set(when, w)
                    fv = [int(ctx.get(sigs[name])) for name, k, wd in spec]  # observed, produced by the in-design source
                    vals.append((w, fv))
                t = ctx.get(ticks)
                mrun = bool(ctx.get(d.caller.done))
                for site, ((cls, spec, sigs, when, ctxk, statics), (w, fv)) in enumerate(zip(d.sites, vals)):
                    active = {"top": w, "topemit": w, "always": 1, "if": w and c, "nested_if": w and c and c2, "body": w and go, "method_body": w and mrun}[ctxk]
                    if active:
                        expected.append((t, site, fv))
                        rec.count("events")
                        rec.nontrivial(f"{ctxk}|{'/'.join(k + str(wd) for _, k, wd in spec)}")
                    elif w:
                        rec.count("trigger_true_but_context_inactive")
                for smp, sink in ((samplers["packed"], sinks["packed"]), (samplers["persite"], sinks["persite"])):
                    smp.sample(t, sink)
                rec.count("cycles")
                await ctx.tick()

        sim.add_testbench(tb)
        sim.run()
    raw = [(c, s, [int(x) for x in v]) for c, s, v in log.raw]
    rec.check("capture:exactly_the_active_cycle_and_site_pairs_with_sampled_values", sorted(raw) == sorted(expected), case=case,
              detail={"captured": len(raw), "expected": len(expected), "first_difference": first_diff(sorted(raw), sorted(expected))})
    for name, sink in sinks.items():
        sraw = [(c, s, [int(x) for x in v]) for c, s, v in sink.raw]
        rec.check(f"generated_sampler:{name}_triggers_yield_the_same_events", sorted(sraw) == sorted(expected), case=case,
                  detail={"sampled": len(sraw), "expected": len(expected), "first_difference": first_diff(sorted(sraw), sorted(expected))})
        rec.check(f"generated_sampler:{name}_decodes_like_capture", sorted(map(repr, sink.decoded())) == sorted(map(repr, log.decoded())), case=case)
    dec = log.decoded()
    ok = len(dec) == len(log.raw)
    for r, (c, s, v) in zip(dec, log.raw):
        cls, spec, sigs, when, ctxk, statics = d.sites[s]
        for (name, k, w), val in zip(spec, v):
            got = getattr(r.event, name)
            exp = bool(val) if k == "bool" else Kind(val) if k == "enum" else int(val)
            ok = ok and got == exp and type(got) is type(exp)
        for sk, sv in statics.items():
            ok = ok and getattr(r.event, sk) == sv and type(getattr(r.event, sk)) is type(sv)
        ok = ok and r.cycle == c and type(r.event) is cls and r.source_name == ("vf.src" if statics["lane"] % 2 == 0 else "vf.other")
    rec.check("decode:typed_values_statics_cycle_and_source", ok, case=case)
    with tempfile.TemporaryDirectory() as td:
        p = f"{td}/e.jsonl"
        log.save(p)
        l2 = EventLog.load(p)
        rec.check("save_load:same_records_schema_and_decoded_events", l2.raw == log.raw and l2.schema == log.schema and l2.decoded() == dec, case=case,
                  detail={"saved": len(log.raw), "loaded": len(l2.raw)})
        rec.check("reader:streams_the_same_decoded_events", list(EventLogReader(p)) == dec, case=case)
        p2 = f"{td}/w.jsonl"
        with EventLogWriter(p2, log.schema) as w:
            for c, s, v in log.raw:
                w.emit_raw(c, s, v)
        rec.check("writer:stream_file_identical_to_saved_file", open(p).read() == open(p2).read(), case=case)
    # consumer: cycle order, right handler per event type, unhandled ones to on_unhandled
    handled_cls = d.sites[0][0] if d.sites else None
    seen, handled = [], []

    class Cons(EventConsumer):
        def on_unhandled(self, r):
            seen.append((r.cycle, "unhandled", type(r.event)))

    if handled_cls is not None:
        class Cons(Cons):  # noqa: F811
            @handles(handled_cls)
            def on_it(self, r):
                seen.append((r.cycle, "handled", type(r.event)))

    sh = list(dec)
    random.Random(idx).shuffle(sh)
    Cons().run(sh)
    cyc_order = [c for c, _, _ in seen]
    rec.check("consumer:dispatches_every_event_once_in_cycle_order", cyc_order == sorted(cyc_order) and len(seen) == len(dec), case=case,
              detail={"dispatched": len(seen), "events": len(dec)})
    rec.check("consumer:right_handler_per_event_type", all((kind == "handled") == (cls is handled_cls) for _, kind, cls in seen), case=case)
    rec.count("runs")
    rec.count("sites", len(d.sites))
    if len(rec.samples) < 2:
        rec.sample({"sites": case["sites"], "first_events": expected[:5]})


def first_diff(a, b):
    for x, y in zip(a, b):
        if x != y:
            return {"got": x, "expected": y}
    if len(a) != len(b):
        return {"extra_got": a[len(b):][:2], "missing": b[len(a):][:2]}
    return None


def shards(tier, seed):
    n = 64 if tier == "quick" else 2000
    per = 4 if tier == "quick" else 25
    return [{"seed": seed, "first": i, "n": per, "cycles": 60 if tier == "quick" else 150} for i in range(0, n, per)]


def run_shard(spec, rec):
    for i in range(spec["first"], spec["first"] + spec["n"]):
        rnd = random.Random(f"C33:{spec['seed']}:{i}")
        try:
            one_run(rec, rnd, i, spec["cycles"])
        except Exception:
            if not rec.viol_total:
                rec.check("runs_without_error", False, case={"run": i}, detail=traceback.format_exc()[-1500:])


RULE = ("event classes created at run time with the real @event decorator (0-3 dynamic fields: unsigned/signed 1-40 bits, bool, IntEnum; static int/str/"
        "enum fields; one class emitted at several sites), 1-6 emission sites at module top, under If, under nested If, inside a transaction body, inside a "
        "method body, via top_emit and without `when`; random trigger/context/field histories; an observer testbench records the expected (cycle, site, "
        "values) list; capture_evlog, typed decoding, save/load, EventLogReader, EventLogWriter, VerilogDebugWrapper.collect_evlog + "
        "GeneratedEvLogSampler (packed and per-site triggers, resolver reading the live simulator signals) and EventConsumer are compared with it; "
        "distinct non-trivial case = (emission context, field kinds and widths)")
ASSUMPTIONS = ["the generated-design sampler is exercised through a resolver over pysim signals with a synthetic name map (no Verilog back end is available)",
               "the resolver returns the signed value for signed fields, as the in-process capture does"]
MINIMA = {"quick": {"events": 3000, "runs": 40, "trigger_true_but_context_inactive": 300, "distinct": 40}, "thorough": {"events": 200000, "distinct": 150}}
