"""C43 - testbench helpers call methods exactly once."""

from __future__ import annotations

import collections
import random
import traceback

from amaranth import Elaboratable, Signal
from transactron import Method, TModule, Transaction, def_method
from transactron.core import Required
from transactron.testing import SimpleTestCircuit, PysimSimulator, MethodMock, CallTrigger
from transactron.utils.dependencies import DependencyContext, DependencyManager

ENGINE = "inframon"
TECHNIQUE = "runtime monitoring: hardware execution counter and cycle counter inside the called design observed independently of the testbench helper's own bookkeeping"


class Dut(Elaboratable):
    """Method with harness-controlled readiness; returns the free-running cycle counter; counts executions in hardware."""

    def __init__(self):
        self.meth = Method(i=[("a", 8)], o=[("cyc", 16), ("a", 8)])
        self.other = Method(i=[("b", 8)], o=[("cyc", 16)])
        self.rdy = Signal()
        self.rdy2 = Signal()
        self.cyc = Signal(16)
        self.execs = Signal(16)
        self.execs2 = Signal(16)
        self.last_a = Signal(8)

    def elaborate(self, platform):
        m = TModule()
        m.d.sync += self.cyc.eq(self.cyc + 1)

        @def_method(m, self.meth, ready=self.rdy)
        def _(a):
            m.d.sync += self.execs.eq(self.execs + 1)
            m.d.sync += self.last_a.eq(a)
            return {"cyc": self.cyc, "a": a}

        @def_method(m, self.other, ready=self.rdy2)
        def _(b):
            m.d.sync += self.execs2.eq(self.execs2 + 1)
            return {"cyc": self.cyc}

        return m


def run_call(rec, rnd, case, ncalls):
    with DependencyContext(DependencyManager()):
        dut = Dut()
        circ = SimpleTestCircuit(dut)
        sim = PysimSimulator(circ, max_cycles=ncalls * 40 + 100)
        n = ncalls * 40 + 90
        p1, p2 = rnd.choice([0.1, 0.5, 0.9]), rnd.choice([0.1, 0.5, 0.9])
        pattern = [rnd.random() < p1 for _ in range(n)]
        pattern2 = [rnd.random() < p2 for _ in range(n)]
        for k in range(0, n, 37):  # make sure no unbounded unready stretch
            pattern[k] = pattern2[k] = True
        case = dict(case, ready_probability=[p1, p2])

        async def readiness(ctx):
            for r, r2 in zip(pattern, pattern2):
                ctx.set(dut.rdy, r)
                ctx.set(dut.rdy2, r2)
                await ctx.tick()

        async def caller(ctx):
            for k in range(ncalls):
                before, before2, c0, a = ctx.get(dut.execs), ctx.get(dut.execs2), ctx.get(dut.cyc), rnd.randrange(256)
                mode = rnd.random()
                det = {"call_index": k, "start_cycle": c0, "arg": a}
                if mode < 0.4:
                    low_level = rnd.random() < 0.35  # the documented low-level pair call_init + call_do must behave like call
                    if low_level:
                        circ.meth.call_init(ctx, a=a)
                        res = await circ.meth.call_do(ctx)
                        rec.count("call_init_call_do")
                    else:
                        res = await circ.meth.call(ctx, a=a)
                    after, now = ctx.get(dut.execs), ctx.get(dut.cyc)
                    det.update(result_cycle=int(res.cyc), now=now, executions=[before, after], helper="call_init+call_do" if low_level else "call")
                    rec.check("call:performs_exactly_one_call", after == before + 1, case=case, detail=det)
                    rec.check("call:result_is_from_the_cycle_in_which_the_call_succeeded", res.cyc == now - 1 and pattern[res.cyc], case=case, detail=det)
                    rec.check("call:waits_exactly_until_first_ready_cycle", not any(pattern[c0:res.cyc]), case=case, detail=det)
                    rec.check("call:argument_delivered", res.a == a and ctx.get(dut.last_a) == a, case=case, detail=det)
                    rec.count("call")
                    rec.count("helper_calls")
                    if res.cyc > c0:
                        rec.count("call_waited")
                    rec.nontrivial(f"call|waited{min(int(res.cyc) - c0, 5)}")
                elif mode < 0.5:
                    # call_init, then poll call_result every cycle until the call went through, then disable
                    circ.meth.call_init(ctx, a=a)
                    polls = []
                    while True:
                        cnow = ctx.get(dut.cyc)
                        r = await circ.meth.call_result(ctx)
                        polls.append((cnow, r is not None))
                        rec.check("call_result:none_exactly_when_the_method_did_not_run_in_that_cycle", (r is None) != pattern[cnow], case=case, detail=dict(det, polls=polls[-6:]))
                        if r is not None or len(polls) > 60:
                            break
                    circ.meth.disable(ctx)
                    after = ctx.get(dut.execs)
                    det.update(polls=polls[-6:], executions=[before, after])
                    rec.check("call_result:one_call_performed_and_its_result_returned", r is not None and after == before + 1 and r.cyc == polls[-1][0] and r.a == a, case=case, detail=det)
                    rec.count("call_result_polls", len(polls))
                    rec.count("helper_calls")
                    rec.nontrivial(f"call_result|polls{min(len(polls), 5)}")
                elif mode < 0.8:
                    res = await circ.meth.call_try(ctx, a=a)
                    after = ctx.get(dut.execs)
                    det.update(result=None if res is None else int(res.cyc), executions=[before, after], ready=pattern[c0])
                    rec.check("call_try:none_exactly_when_method_did_not_run", (res is None) == (after == before), case=case, detail=det)
                    rec.check("call_try:at_most_one_call", after - before in (0, 1), case=case, detail=det)
                    rec.check("call_try:runs_iff_ready_in_that_cycle", (res is None) != pattern[c0], case=case, detail=det)
                    if res is not None:
                        rec.check("call_try:result_from_that_cycle", res.cyc == c0 and res.a == a, case=case, detail=det)
                    else:
                        rec.count("call_try_none")
                    rec.count("call_try")
                    rec.count("helper_calls")
                    rec.nontrivial(f"call_try|{'none' if res is None else 'ran'}")
                else:
                    # two methods in one cycle through CallTrigger
                    b = rnd.randrange(256)
                    r1, sampled_cycle, r2 = await CallTrigger(ctx).call(circ.meth, a=a).sample(dut.cyc).call(circ.other, b=b)
                    rec.check("call_trigger:sampled_values_are_returned_in_declaration_order_from_that_edge", sampled_cycle == c0, case=case, detail=dict(det, sampled=int(sampled_cycle)))
                    after, after2 = ctx.get(dut.execs), ctx.get(dut.execs2)
                    det.update(results=[None if r1 is None else int(r1.cyc), None if r2 is None else int(r2.cyc)], ready=[pattern[c0], pattern2[c0]])
                    rec.check("call_trigger:each_result_none_exactly_when_that_method_did_not_run",
                              (r1 is None) == (after == before) and (r2 is None) == (after2 == before2), case=case, detail=det)
                    rec.check("call_trigger:both_calls_in_the_same_cycle", (r1 is None or r1.cyc == c0) and (r2 is None or r2.cyc == c0)
                              and (r1 is None) != pattern[c0] and (r2 is None) != pattern2[c0], case=case, detail=det)
                    rec.count("call_trigger")
                    rec.count("helper_calls")
                    rec.nontrivial(f"trigger|{int(r1 is not None)}{int(r2 is not None)}")
                # the helper must have released the enable: nothing executes while the caller idles
                idle = rnd.randrange(3)
                e0 = ctx.get(dut.execs)
                for _ in range(idle):
                    await ctx.tick()
                if idle:
                    rec.check("no_call_after_the_helper_returned", ctx.get(dut.execs) == e0, case=case, detail=dict(det, idle_cycles=idle))
                if rec.viol_total:
                    return

        sim.add_testbench(readiness, background=True)
        sim.add_testbench(caller)
        sim.run()
    rec.count("histories")


class Dut2(Elaboratable):
    """Calls a required (mocked) method whenever `go`; counts executions in hardware and latches the returned value."""

    req: Required[Method]

    def __init__(self, tagged=False):
        self.req = Method(i=[("x", 8)], o=[("y", 8)])
        self.go = Signal()
        self.execs = Signal(16)
        self.ret = Signal(8)
        self.arg = Signal(8)
        self.tagged = tagged  # the argument includes a register that the call itself updates: it changes exactly at the executing clock edge

    def elaborate(self, platform):
        m = TModule()
        with Transaction().body(m, ready=self.go):
            r = self.req(m, x=(self.arg + self.execs[:8])[:8] if self.tagged else self.arg)
            m.d.sync += self.execs.eq(self.execs + 1)
            m.d.sync += self.ret.eq(r.y)
        return m


def run_mock(rec, rnd, case, cycles):
    with DependencyContext(DependencyManager()):
        tagged = rnd.random() < 0.5
        dut = Dut2(tagged)
        circ = SimpleTestCircuit(dut)
        sim = PysimSimulator(circ, max_cycles=cycles + 50)
        effects, calls_log = [], []
        if tagged:
            rec.count("mock_histories_with_argument_changed_by_the_call_itself")
        delay = rnd.choice([0, 0, 1e-9, 3e-9, 2e-7])
        pen = rnd.choice([0.2, 0.6, 1.0])
        pgo = rnd.choice([0.3, 0.7, 1.0])
        mul, add = rnd.randrange(1, 8, 2), rnd.randrange(256)
        case = dict(case, delay=delay, enable_probability=pen, go_probability=pgo, argument_includes_register_updated_by_the_call=tagged)

        def fn(x):
            y = (x * mul + add) & 255

            @MethodMock.effect
            def _():
                effects.append((x, y))

            return {"y": y}

        mock = MethodMock(circ.req.adapter, fn, enable=lambda: rnd.random() < pen, delay=delay)
        sim.add_mock(mock)

        async def drv(ctx):
            await ctx.tick()  # start every driven cycle right after a clock edge (a glitch delay must never span an edge)
            for cyc in range(cycles):
                a = rnd.randrange(256)
                ctx.set(dut.arg, a)
                if rnd.random() < 0.15:
                    # glitch: the caller is enabled for part of the cycle only and is not enabled at the clock edge;
                    # the mock body may be evaluated, but no call executes, so no effect may be applied
                    ctx.set(dut.go, 1)
                    await ctx.delay(rnd.choice([1e-7, 3e-7, 6e-7]))
                    ctx.set(dut.go, 0)
                    rec.count("glitch_cycles")
                else:
                    ctx.set(dut.go, rnd.random() < pgo)
                before = ctx.get(dut.execs)
                await ctx.tick()
                after = ctx.get(dut.execs)
                if after != before:
                    x_eff = (a + (before & 255)) & 255 if tagged else a
                    y = (x_eff * mul + add) & 255
                    calls_log.append((x_eff, y))
                    rec.check("mock:return_value_reaches_the_caller_in_the_same_cycle", ctx.get(dut.ret) == y, case=case,
                              detail={"cycle": cyc, "arg": x_eff, "latched": ctx.get(dut.ret), "expected": y})
                    rec.count("mock_calls")
                    rec.count("helper_calls")
                else:
                    rec.count("mock_idle_cycles")
                rec.count("cycles")
                if rec.viol_total:
                    return
            ctx.set(dut.go, 0)
            await ctx.tick()
            await ctx.tick()  # lets the effect process of the last executed call finish (delays are shorter than a cycle)
            n = ctx.get(dut.execs)
            rec.check("mock:effects_applied_exactly_once_per_executed_call", len(effects) == n and effects == calls_log, case=case,
                      detail={"effects": len(effects), "hardware_executions": n, "first_effects": effects[:4], "first_calls": calls_log[:4]})

        sim.add_testbench(drv)
        sim.run()
    rec.nontrivial(f"mock|delay{delay}|en{pen}|go{pgo}")
    rec.count("histories")


def shards(tier, seed):
    n = 48 if tier == "quick" else 9600
    per = 3 if tier == "quick" else 20
    return [{"seed": seed, "first": i, "n": per, "tier": tier} for i in range(0, n, per)]


def run_shard(spec, rec):
    for i in range(spec["first"], spec["first"] + spec["n"]):
        rnd = random.Random(f"C43:{spec['seed']}:{i}")
        case = {"history": i, "kind": "TestbenchIO" if i % 2 == 0 else "MethodMock"}
        try:
            if i % 2 == 0:
                run_call(rec, rnd, case, 60 if spec["tier"] == "quick" else 150)
            else:
                run_mock(rec, rnd, case, 300 if spec["tier"] == "quick" else 800)
        except Exception:
            if not rec.viol_total:
                rec.check("simulates", False, case=case, detail=traceback.format_exc()[-1500:])
        if len(rec.samples) < 2:
            rec.sample(case)


EVALUATIONS = "helper_calls"
RULE = ("TestbenchIO.call / call_init+call_do / call_init+call_result polling / call_try / CallTrigger with two methods and a sampled value against a DUT whose method readiness follows a random per-cycle pattern (p in {0.1,0.5,0.9}), "
        "returns its cycle counter and counts executions in hardware; MethodMock with random enable (p in {0.2,0.6,1}) and delay in {0, 1ns, 3ns, 200ns} mocking "
        "a method called by a transaction with random activity, effects logged and compared with the hardware execution counter; distinct non-trivial "
        "case = (helper, waited cycles / outcome / mock parameters)")
ASSUMPTIONS = ["the readiness process and the caller are separate testbenches synchronised on the clock"]
MINIMA = {"quick": {"call": 400, "call_try": 400, "call_try_none": 100, "call_waited": 100, "call_trigger": 150, "call_init_call_do": 100, "call_result_polls": 200, "mock_calls": 2000, "glitch_cycles": 300, "distinct": 15},
          "thorough": {"call": 20000, "mock_calls": 100000, "distinct": 20}}
