"""C10 - well-formed designs elaborate without combinational loops."""

from ..gen.checks import GenCheck, COMMON_ASSUMPTIONS

ENGINE = "dgen+refsem"
TECHNIQUE = "runtime monitoring: random well-formed designs emitted as real Transactron objects, simulated under hostile input valuations; per-cycle oracle = independent reference semantics over sampled run/data/witness signals"
CHECK = GenCheck("C10", ("C10:", "C11:well_formed"), {"p_forwarder": 0.5, "max_nesting": 3, "max_sb": 3, "p_same_trans_conflict": 0.3, "p_double_conflict": 0.2, "p_excl_order": 0.4}, scheds=("eager",), cond=True, nontrivial_counter="designs_with_run_dependent_ready", quick=(120, 40), thorough=(8000, 60))
shards, run_shard = CHECK.shards, CHECK.run_shard
ASSUMPTIONS = COMMON_ASSUMPTIONS
RULE = ("[plus condition() designs of the cond profile: blocks inside plainly / conditionally called methods, nested condition(), branches calling methods with validate_arguments] random well-formed designs stressing the documented relaxations (Forwarder-style ready = state | other.run with other.schedule_before(this) on half of the bodies, nesting depth <= 3, provided methods); oracle: amaranth.hdl._ir.build_netlist on the elaborated design (Amaranth's own bit-level combinational-cycle check) raises nothing, then the design is simulated; non-trivial design = contains a run-dependent ready term; distinct = design shape signature")
MINIMA = {"quick": {"designs_simulated": 60, "designs_with_run_dependent_ready": 20, "designs_with_nesting": 20, "distinct": 20}, "thorough": {"designs_simulated": 4000, "distinct": 500}}
EVALUATIONS = "designs_simulated"


# ---- library topologies: the canonical users of the documented relaxations (run-dependent ready with schedule_before, nesting, condition()) ----
import random as _random
import traceback as _traceback

from amaranth import Elaboratable as _Elaboratable
from amaranth.hdl._ir import build_netlist as _build_netlist

_gen_shards, _gen_run_shard = shards, run_shard


class _Chain(_Elaboratable):
    """A random chain of connectors glued by ConnectTrans / MethodMap / MethodFilter(use_condition) / Collector, ends exposed for a driver."""

    def __init__(self, rnd):
        from transactron.lib import Forwarder, Pipe, BasicFifo, FIFO, Connect
        self.rnd = rnd
        L = [("x", 8)]
        self.L = L
        kinds = []
        self.stages = []
        for _ in range(rnd.randint(2, 6)):
            k = rnd.choice(["Forwarder", "Pipe", "BasicFifo", "FIFO", "Connect"])
            kinds.append(k)
            self.stages.append({"Forwarder": lambda: Forwarder(L), "Pipe": lambda: Pipe(L), "BasicFifo": lambda: BasicFifo(L, rnd.randint(1, 3)),
                                "FIFO": lambda: FIFO(L, rnd.randint(1, 3)), "Connect": lambda: Connect(L)}[k]())
        self.glue = [rnd.choice(["trans", "map", "filter_cond", "collector"]) for _ in range(len(self.stages) - 1)]
        self.kinds = kinds
        self.write = self.stages[0].write
        self.read = self.stages[-1].read

    def elaborate(self, platform):
        from transactron import TModule
        from transactron.lib import ConnectTrans, MethodMap, MethodFilter, Collector
        m = TModule()
        for i, s in enumerate(self.stages):
            m.submodules[f"s{i}"] = s
        for i, g in enumerate(self.glue):
            src, dst = self.stages[i].read, self.stages[i + 1].write
            if g == "trans":
                m.submodules[f"g{i}"] = ConnectTrans.create(dst, src)
            elif g == "map":
                m.submodules[f"g{i}m"] = mp = MethodMap.create(dst, i_transform=(self.L, lambda mm, v: {"x": v.x + 1}))
                m.submodules[f"g{i}"] = ConnectTrans.create(mp.method, src)
            elif g == "filter_cond":
                m.submodules[f"g{i}f"] = fl = MethodFilter.create(dst, lambda mm, v: v.x[0] | 1, use_condition=True)
                m.submodules[f"g{i}"] = ConnectTrans.create(fl.method, src)
            else:
                m.submodules[f"g{i}c"] = co = Collector.create([src])
                m.submodules[f"g{i}"] = ConnectTrans.create(dst, co.method)
        return m


def _library_design(rnd, i):
    """Returns (description, simulator) of an elaborated library topology."""
    from amaranth import Module, Signal
    from amaranth.sim import Simulator
    from transactron import TransactronContextElaboratable
    from transactron.testing import SimpleTestCircuit, PysimSimulator
    from transactron.utils.dependencies import DependencyContext, DependencyManager
    kind = ["chain", "condition", "connect", "pipeline", "chain"][i % 5]
    dm = DependencyManager()
    with DependencyContext(dm):
        if kind == "chain":
            ch = _Chain(rnd)
            sim = PysimSimulator(SimpleTestCircuit(ch, exclude={"stages"}), max_cycles=50)
            return {"kind": kind, "stages": ch.kinds, "glue": ch.glue}, sim
        if kind == "pipeline":
            from . import c28
            stages, live = c28.gen(rnd)
            from transactron.lib import Adapter, AdapterTrans
            from transactron.testing import TestbenchIO
            from transactron.utils import ModuleConnector
            dut = c28.Pipe(stages, live)
            mocks = [TestbenchIO(Adapter.create(mth)) for mth in dut.calls.values()]
            exts = [TestbenchIO(AdapterTrans.create(mth)) for mth in dut.exts.values()]
            sim = PysimSimulator(ModuleConnector(SimpleTestCircuit(dut, exclude={"calls", "exts"}), *mocks, *exts), max_cycles=50)
            return {"kind": kind, "stages": [s["kind"] + ("+fifo" if s["fifo"] else "") for s in stages]}, sim
        if kind == "condition":
            from . import c12
            D = c12.gen(rnd)
            e = c12.Emit(D)
        else:
            from . import c13
            D = c13.gen(rnd, i)
            e = c13.Emit(D)
        top = TransactronContextElaboratable(e, dependency_manager=dm)
        wrap = Module()
        dummy = Signal()
        wrap.d.sync += dummy.eq(1)
        wrap.submodules.top = top
        return {"kind": kind, "ir": D}, Simulator(wrap)


def shards(tier, seed):
    out = _gen_shards(tier, seed)
    n = 40 if tier == "quick" else 1500
    out += [{"seed": seed, "library": True, "first": i, "n": 4 if tier == "quick" else 30} for i in range(0, n, 4 if tier == "quick" else 30)]
    return out


def run_shard(spec, rec):
    if not spec.get("library"):
        return _gen_run_shard(spec, rec)
    for i in range(spec["first"], spec["first"] + spec["n"]):
        rnd = _random.Random(f"C10:lib:{spec['seed']}:{i}")
        try:
            desc, sim = _library_design(rnd, i)
        except Exception:
            rec.check("C10:library_topology_elaborates", False, case={"library_design": i}, detail=_traceback.format_exc()[-1200:])
            continue
        rec.check("C10:library_topology_elaborates", True)
        try:
            _build_netlist(sim._design)
            rec.check("C10:no_combinational_cycle", True)
        except Exception as ex:
            rec.check("C10:no_combinational_cycle", False, case=dict(desc, library_design=i), detail=str(ex)[:600])
        rec.count("library_topologies:" + desc["kind"])
        rec.count("designs_simulated")
        rec.nontrivial("lib|" + desc["kind"] + "|" + str(desc.get("stages", desc.get("ir", {}) and sorted(desc["ir"].items())[:4]))[:80])


RULE += (" [plus library topologies: random chains of Forwarder / Pipe / BasicFifo / FIFO / Connect glued by ConnectTrans, MethodMap, "
         "MethodFilter(use_condition) and Collector; condition() designs of C12; Connect / simultaneous() designs of C13; PipelineBuilder pipelines of C28 - "
         "each elaborated under the default scheduler and passed through the same combinational-cycle check]")
