"""C10 - well-formed designs elaborate without combinational loops."""

from ..gen.checks import GenCheck, COMMON_ASSUMPTIONS

ENGINE = "dgen+refsem"
TECHNIQUE = "runtime monitoring: random well-formed designs emitted as real Transactron objects, simulated under hostile input valuations; per-cycle oracle = independent reference semantics over sampled run/data/witness signals"
CHECK = GenCheck("C10", ("C10:", "C11:well_formed"), {"p_forwarder": 0.5, "max_nesting": 3, "max_sb": 3}, scheds=("eager",), nontrivial_counter="designs_with_run_dependent_ready", quick=(120, 40), thorough=(8000, 60))
shards, run_shard = CHECK.shards, CHECK.run_shard
ASSUMPTIONS = COMMON_ASSUMPTIONS
RULE = ("random well-formed designs stressing the documented relaxations (Forwarder-style ready = state | other.run with other.schedule_before(this) on half of the bodies, nesting depth <= 3, provided methods); oracle: amaranth.hdl._ir.build_netlist on the elaborated design (Amaranth's own bit-level combinational-cycle check) raises nothing, then the design is simulated; non-trivial design = contains a run-dependent ready term; distinct = design shape signature")
MINIMA = {"quick": {"designs_simulated": 60, "designs_with_run_dependent_ready": 20, "designs_with_nesting": 20, "distinct": 20}, "thorough": {"designs_simulated": 4000, "distinct": 500}}
EVALUATIONS = "designs_simulated"
