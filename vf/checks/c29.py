"""C29 - stream adapters obey the ready/valid protocol."""

from __future__ import annotations

import collections
import random
import traceback

from amaranth import Elaboratable, Module, Signal, Array
from amaranth.lib import stream, wiring
from amaranth.lib.wiring import In, Out
from transactron.lib.stream import StreamSink, StreamSource, StreamModuleWrapper
from transactron import TModule, Transaction
from transactron.testing import SimpleTestCircuit, PysimSimulator
from transactron.utils.dependencies import DependencyContext, DependencyManager

ENGINE = "compmon"
TECHNIQUE = "runtime monitoring: ready/valid protocol monitor (stability while stalled, exactly-once in-order transfer) on the adapters' stream interfaces and methods"


class StreamBuf(wiring.Component):
    """Harness-side registered stream buffer (depth 1..4) with lib.stream interfaces, to be wrapped by StreamModuleWrapper."""

    def __init__(self, width, depth):
        super().__init__({"i": In(stream.Signature(width)), "o": Out(stream.Signature(width))})
        self.depth = depth
        self.width = width

    def elaborate(self, platform):
        m = Module()
        store = Array(Signal(self.width, name=f"s{i}") for i in range(self.depth))
        rd, wr = Signal(range(self.depth)), Signal(range(self.depth))
        lvl = Signal(range(self.depth + 1))
        m.d.comb += [self.i.ready.eq(lvl < self.depth), self.o.valid.eq(lvl > 0), self.o.payload.eq(store[rd])]
        push = self.i.valid & self.i.ready
        pop = self.o.valid & self.o.ready
        with m.If(push):
            m.d.sync += [store[wr].eq(self.i.payload), wr.eq((wr + 1) % self.depth if self.depth > 1 else 0)]
        with m.If(pop):
            m.d.sync += rd.eq((rd + 1) % self.depth if self.depth > 1 else 0)
        m.d.sync += lvl.eq(lvl + push - pop)
        return m


def probs(rnd):
    return rnd.choice([0.15, 0.5, 0.85, 1.0])


def run_source(rec, rnd, cycles, case):
    width = case["width"]
    with DependencyContext(DependencyManager()):
        dut = StreamSource(width)
        circ = SimpleTestCircuit(dut)
        sim = PysimSimulator(circ, max_cycles=cycles + 40)

        async def drv(ctx):
            trig = ctx.tick().sample(circ.write.adapter.done, dut.o.valid, dut.o.payload, dut.o.ready)
            sent, got = [], []
            prev = None
            n = 0
            pw, pr = probs(rnd), probs(rnd)
            log = collections.deque(maxlen=8)
            for cyc in range(cycles + 20):
                drain = cyc >= cycles
                if cyc % 50 == 49:
                    pw, pr = probs(rnd), probs(rnd)
                en = (not drain) and rnd.random() < pw
                rdy = drain or rnd.random() < pr
                val = (n * 7 + 3) & ((1 << width) - 1)
                ctx.set(circ.write.adapter.en, en)
                ctx.set(circ.write.adapter.data_in, {"data": val})
                ctx.set(dut.o.ready, rdy)
                _, _, d, valid, payload, ready = await trig
                log.append({"cycle": cyc, "write_en": en, "write_done": bool(d), "valid": int(valid), "payload": int(payload), "ready": int(ready)})
                det = {"last_cycles": list(log)}
                rec.check("source:write_ready_iff_not_valid_or_ready", bool(d) == (en and (not valid or bool(ready))), case=case, detail=det)
                if prev is not None and prev[0] and not prev[2]:
                    rec.count("stalled_cycles")
                    rec.check("source:valid_and_payload_stable_until_accepted", bool(valid) and payload == prev[1], case=case, detail=det)
                if valid and ready:
                    got.append(int(payload))
                    rec.check("source:transfers_in_write_order", len(got) <= len(sent) and got[-1] == sent[len(got) - 1], case=case,
                              detail=dict(det, transferred=got[-3:], written=sent[max(0, len(got) - 3):len(got)]))
                if d:
                    sent.append(val)
                    n += 1
                prev = (int(valid), int(payload), int(ready))
                rec.count("cycles")
                rec.nontrivial(f"source|v{int(valid)}r{int(ready)}w{int(bool(d))}")
                if rec.viol_total:
                    return
            rec.check("source:every_item_emitted_exactly_once", got == sent, case=case, detail={"written": len(sent), "transferred": len(got)})
            rec.count("items", len(got))

        sim.add_testbench(drv)
        sim.run()


def run_sink(rec, rnd, cycles, case):
    width = case["width"]
    with DependencyContext(DependencyManager()):
        dut = StreamSink(width)
        circ = SimpleTestCircuit(dut)
        sim = PysimSimulator(circ, max_cycles=cycles + 20)

        async def drv(ctx):
            trig = ctx.tick().sample(circ.read.adapter.done, circ.read.adapter.data_out, circ.peek.adapter.done, circ.peek.adapter.data_out, dut.i.ready)
            valid, payload, n = 0, 0, 0
            produced, consumed = [], []
            pv, per, pep = probs(rnd), probs(rnd), probs(rnd)
            log = collections.deque(maxlen=8)
            for cyc in range(cycles):
                if cyc % 50 == 49:
                    pv, per, pep = probs(rnd), probs(rnd), probs(rnd)
                if not valid and rnd.random() < pv:  # a protocol-abiding producer: valid stays until accepted
                    valid, payload = 1, (n * 5 + 1) & ((1 << width) - 1)
                    n += 1
                    produced.append(payload)
                er, ep = rnd.random() < per, rnd.random() < pep
                ctx.set(dut.i.valid, valid)
                ctx.set(dut.i.payload, payload)
                ctx.set(circ.read.adapter.en, er)
                ctx.set(circ.peek.adapter.en, ep)
                _, _, dr, outr, dp, outp, ready = await trig
                log.append({"cycle": cyc, "valid": valid, "payload": payload, "read_en": er, "peek_en": ep, "read_done": bool(dr), "peek_done": bool(dp), "i.ready": int(ready)})
                det = {"last_cycles": list(log)}
                rec.check("sink:read_ready_iff_valid", bool(dr) == bool(er and valid), case=case, detail=det)
                rec.check("sink:peek_ready_iff_valid", bool(dp) == bool(ep and valid), case=case, detail=det)
                rec.check("sink:transfer_happens_exactly_when_read_executes", bool(ready) == bool(dr), case=case, detail=det)
                if dr:
                    consumed.append(int(outr.data))
                    rec.check("sink:read_returns_payload", outr.data == payload, case=case, detail=det)
                if dp:
                    rec.check("sink:peek_returns_payload", outp.data == payload, case=case, detail=det)
                if dp and not dr:
                    rec.count("peek_without_read_cycles")
                if valid and ready:
                    valid = 0
                rec.count("cycles")
                rec.nontrivial(f"sink|v{valid}r{int(bool(dr))}p{int(bool(dp))}")
                if rec.viol_total:
                    return
            rec.check("sink:consumes_exactly_the_transferred_items_in_order", consumed == produced[:len(consumed)] and len(produced) - len(consumed) <= 1, case=case,
                      detail={"produced": len(produced), "consumed": len(consumed)})
            rec.count("items", len(consumed))

        sim.add_testbench(drv)
        sim.run()


def run_wrapper(rec, rnd, cycles, case):
    width, depth = case["width"], case["depth"]
    with DependencyContext(DependencyManager()):
        dut = StreamModuleWrapper(StreamBuf(width, depth))
        circ = SimpleTestCircuit(dut, exclude={"module"})
        sim = PysimSimulator(circ, max_cycles=cycles + 60)

        async def drv(ctx):
            trig = ctx.tick().sample(circ.write.adapter.done, circ.read.adapter.done, circ.read.adapter.data_out)
            sent, got = [], []
            n = 0
            pw, pr = probs(rnd), probs(rnd)
            for cyc in range(cycles + 40):
                drain = cyc >= cycles
                if cyc % 50 == 49:
                    pw, pr = probs(rnd), probs(rnd)
                val = (n * 3 + 1) & ((1 << width) - 1)
                ctx.set(circ.write.adapter.en, (not drain) and rnd.random() < pw)
                ctx.set(circ.write.adapter.data_in, {"data": val})
                ctx.set(circ.read.adapter.en, drain or rnd.random() < pr)
                _, _, dw, dr, out = await trig
                if dr:
                    got.append(int(out.data))
                    rec.check("wrapper:items_leave_in_write_order", len(got) <= len(sent) and got[-1] == sent[len(got) - 1], case=case,
                              detail={"cycle": cyc, "read": got[-3:], "written": sent[max(0, len(got) - 3):len(got) + 1]})
                if dw:
                    sent.append(val)
                    n += 1
                # capacity of the chain: source register + buffer depth (+ nothing in the sink)
                rec.check("wrapper:in_flight_bounded_by_capacity", len(sent) - len(got) <= depth + 1, case=case, detail={"cycle": cyc, "in_flight": len(sent) - len(got)})
                rec.count("cycles")
                if len(sent) - len(got) == depth + 1:
                    rec.count("wrapper_full_cycles")
                rec.nontrivial(f"wrapper|d{depth}|inflight{len(sent) - len(got)}|w{int(bool(dw))}r{int(bool(dr))}")
                if rec.viol_total:
                    return
            rec.check("wrapper:no_item_lost_or_duplicated", got == sent, case=case, detail={"written": len(sent), "read": len(got)})
            rec.count("items", len(got))

        sim.add_testbench(drv)
        sim.run()


class Contended(Elaboratable):
    """A chain source -> buffer -> sink (StreamModuleWrapper) whose write and read methods each have TWO competing callers (harness transactions):
    one stream transfer must feed exactly one read and one write must put exactly one item on the stream."""

    def __init__(self, width, depth):
        self.width = width
        self.dut = StreamModuleWrapper(StreamBuf(width, depth))
        self.wreq, self.rreq = [Signal(name=f"wreq{i}") for i in range(2)], [Signal(name=f"rreq{i}") for i in range(2)]
        self.wdata = [Signal(width, name=f"wdata{i}") for i in range(2)]
        self.wrun, self.rrun = [Signal(name=f"wrun{i}") for i in range(2)], [Signal(name=f"rrun{i}") for i in range(2)]
        self.rdata = [Signal(width, name=f"rdata{i}") for i in range(2)]

    def elaborate(self, platform):
        m = TModule()
        m.submodules.dut = self.dut
        for i in range(2):
            with Transaction(name=f"W{i}").body(m, ready=self.wreq[i]):
                self.dut.write(m, data=self.wdata[i])
                m.d.comb += self.wrun[i].eq(1)
            with Transaction(name=f"R{i}").body(m, ready=self.rreq[i]):
                m.d.comb += [self.rdata[i].eq(self.dut.read(m).data), self.rrun[i].eq(1)]
        return m


def run_contended(rec, rnd, cycles, case):
    width, depth = case["width"], case["depth"]
    with DependencyContext(DependencyManager()):
        circ = Contended(width, depth)
        sim = PysimSimulator(circ, max_cycles=cycles + 80)
        buf = circ.dut.module  # buf.o is the stream consumed by the wrapper's StreamSink, buf.i the one driven by its StreamSource

        async def drv(ctx):
            trig = ctx.tick().sample(*circ.wrun, *circ.rrun, *circ.rdata, buf.o.valid, buf.o.ready, buf.o.payload, buf.i.valid, buf.i.ready, buf.i.payload)
            sent, got, on_stream_in, on_stream_out = [], [], [], []
            n = 0
            pw, pr = probs(rnd), probs(rnd)
            for cyc in range(cycles + 60):
                drain = cyc >= cycles
                if cyc % 50 == 49:
                    pw, pr = probs(rnd), probs(rnd)
                vals = [((n + i) * 3 + 1) & ((1 << width) - 1) for i in range(2)]
                for i in range(2):
                    ctx.set(circ.wreq[i], (not drain) and rnd.random() < pw)
                    ctx.set(circ.wdata[i], vals[i])
                    ctx.set(circ.rreq[i], drain or rnd.random() < pr)
                _, _, w0, w1, r0, r1, d0, d1, sv, sr, sp, ov, orr, op = await trig
                det = {"cycle": cyc, "writers_run": [int(w0), int(w1)], "readers_run": [int(r0), int(r1)], "sink_valid_ready": [int(sv), int(sr)], "source_valid_ready": [int(ov), int(orr)]}
                rec.check("contended:one_stream_transfer_feeds_exactly_one_read", int(r0) + int(r1) == int(bool(sv and sr)), case=case, detail=det)
                rec.check("contended:at_most_one_write_per_cycle", int(w0) + int(w1) <= 1, case=case, detail=det)
                if r0 and r1:
                    rec.count("cycles_with_two_successful_reads")
                if all(ctx.get(s) for s in circ.rreq) and sv:
                    rec.count("cycles_with_two_readers_competing_for_one_item")
                if all(ctx.get(s) for s in circ.wreq):
                    rec.count("cycles_with_two_writers_competing")
                for i, r in enumerate((r0, r1)):
                    if r:
                        got.append(int((d0, d1)[i]))
                        rec.check("contended:read_returns_the_transferred_payload", got[-1] == int(sp), case=case, detail=dict(det, read=got[-1], payload=int(sp)))
                for i, w in enumerate((w0, w1)):
                    if w:
                        sent.append(vals[i])
                        n += 2
                if ov and orr:
                    on_stream_in.append(int(op))
                rec.count("cycles")
                rec.nontrivial(f"contended|d{depth}|w{int(w0)}{int(w1)}r{int(r0)}{int(r1)}")
                if rec.viol_total:
                    return
            rec.check("contended:every_written_item_crosses_the_stream_once", on_stream_in == sent, case=case, detail={"written": len(sent), "on_stream": len(on_stream_in)})
            rec.check("contended:every_item_read_exactly_once_in_order", got == sent, case=case, detail={"written": len(sent), "read": len(got), "first_diff": next((k for k, (a, b) in enumerate(zip(got, sent)) if a != b), None)})
            rec.count("items", len(got))

        sim.add_testbench(drv)
        sim.run()


def shards(tier, seed):
    n = 48 if tier == "quick" else 1200
    per = 3 if tier == "quick" else 15
    return [{"seed": seed, "first": i, "n": per, "cycles": 400 if tier == "quick" else 1500} for i in range(0, n, per)]


def run_shard(spec, rec):
    for i in range(spec["first"], spec["first"] + spec["n"]):
        rnd = random.Random(f"C29:{spec['seed']}:{i}")
        kind = ["source", "sink", "wrapper", "contended"][i % 4]
        case = {"adapter": kind, "width": rnd.choice([1, 4, 8, 16]) if kind != "contended" else rnd.choice([8, 12, 16]), "depth": 1 + (i // 4) % 4, "history": i}
        try:
            {"source": run_source, "sink": run_sink, "wrapper": run_wrapper, "contended": run_contended}[kind](rec, rnd, spec["cycles"], case)
        except Exception:
            if not rec.viol_total:
                rec.check("constructs_and_simulates", False, case=case, detail=traceback.format_exc()[-1200:])
        rec.count("histories")
        if len(rec.samples) < 2:
            rec.sample(case)


RULE = ("StreamSource: writes with unique payloads against a consumer whose ready is random (probabilities re-drawn every 50 cycles); monitor: valid and "
        "payload stable while stalled, write ready iff not valid or ready, transferred sequence == written sequence; StreamSink: protocol-abiding producer, "
        "read/peek ready iff valid, i.ready exactly in cycles where read executed, peek never transfers; StreamModuleWrapper around a harness-written "
        "registered stream buffer of depth 1-4: order, no loss, bounded in-flight; the same chain with two competing caller transactions on write and on read "
        "(one stream transfer feeds exactly one read, every written item crosses the stream once, read sequence == written sequence); distinct non-trivial case = (adapter, valid/ready/done combination, "
        "occupancy)")
ASSUMPTIONS = ["the wrapped stream module (harness-written buffer) itself obeys the protocol"]
MINIMA = {"quick": {"cycles": 8000, "items": 2000, "stalled_cycles": 300, "peek_without_read_cycles": 200, "wrapper_full_cycles": 100, "cycles_with_two_readers_competing_for_one_item": 200,
                    "cycles_with_two_writers_competing": 200, "distinct": 30},
          "thorough": {"cycles": 800000, "distinct": 40}}
