"""C29 - stream adapters obey the ready/valid protocol."""

from __future__ import annotations

import collections
import random
import traceback

from amaranth import Module, Signal, Array
from amaranth.lib import stream, wiring
from amaranth.lib.wiring import In, Out
from transactron.lib.stream import StreamSink, StreamSource, StreamModuleWrapper
from transactron.testing import SimpleTestCircuit, PysimSimulator
from transactron.utils.dependencies import DependencyContext, DependencyManager

ENGINE = "compmon"
TECHNIQUE = "runtime monitoring: ready/valid protocol monitor (stability while stalled, exactly-once in-order transfer) on the adapters' stream interfaces and methods"


class StreamBuf(wiring.Component):
    """Harness-side registered stream buffer (depth 1..4) with lib.stream interfaces, to be wrapped by StreamModuleWrapper."""

    def __init__(self, width, depth):
        super().__init__({"i": In(stream.Signature(width)), "o": Out(stream.Signature(width))})
        self.depth = depth
        self.width = width

    def elaborate(self, platform):
        m = Module()
        store = Array(Signal(self.width, name=f"s{i}") for i in range(self.depth))
        rd, wr = Signal(range(self.depth)), Signal(range(self.depth))
        lvl = Signal(range(self.depth + 1))
        m.d.comb += [self.i.ready.eq(lvl < self.depth), self.o.valid.eq(lvl > 0), self.o.payload.eq(store[rd])]
        push = self.i.valid & self.i.ready
        pop = self.o.valid & self.o.ready
        with m.If(push):
            m.d.sync += [store[wr].eq(self.i.payload), wr.eq((wr + 1) % self.depth if self.depth > 1 else 0)]
        with m.If(pop):
            m.d.sync += rd.eq((rd + 1) % self.depth if self.depth > 1 else 0)
        m.d.sync += lvl.eq(lvl + push - pop)
        return m


def probs(rnd):
    return rnd.choice([0.15, 0.5, 0.85, 1.0])


def run_source(rec, rnd, cycles, case):
    width = case["width"]
    with DependencyContext(DependencyManager()):
        dut = StreamSource(width)
        circ = SimpleTestCircuit(dut)
        sim = PysimSimulator(circ, max_cycles=cycles + 40)

        async def drv(ctx):
            trig = ctx.tick().sample(circ.write.adapter.done, dut.o.valid, dut.o.payload, dut.o.ready)
            sent, got = [], []
            prev = None
            n = 0
            pw, pr = probs(rnd), probs(rnd)
            log = collections.deque(maxlen=8)
            for cyc in range(cycles + 20):
                drain = cyc >= cycles
                if cyc % 50 == 49:
                    pw, pr = probs(rnd), probs(rnd)
                en = (not drain) and rnd.random() < pw
                rdy = drain or rnd.random() < pr
                val = (n * 7 + 3) & ((1 << width) - 1)
                ctx.set(circ.write.adapter.en, en)
                ctx.set(circ.write.adapter.data_in, {"data": val})
                ctx.set(dut.o.ready, rdy)
                _, _, d, valid, payload, ready = await trig
                log.append({"cycle": cyc, "write_en": en, "write_done": bool(d), "valid": int(valid), "payload": int(payload), "ready": int(ready)})
                det = {"last_cycles": list(log)}
                rec.check("source:write_ready_iff_not_valid_or_ready", bool(d) == (en and (not valid or bool(ready))), case=case, detail=det)
                if prev is not None and prev[0] and not prev[2]:
                    rec.count("stalled_cycles")
                    rec.check("source:valid_and_payload_stable_until_accepted", bool(valid) and payload == prev[1], case=case, detail=det)
                if valid and ready:
                    got.append(int(payload))
                    rec.check("source:transfers_in_write_order", len(got) <= len(sent) and got[-1] == sent[len(got) - 1], case=case,
                              detail=dict(det, transferred=got[-3:], written=sent[max(0, len(got) - 3):len(got)]))
                if d:
                    sent.append(val)
                    n += 1
                prev = (int(valid), int(payload), int(ready))
                rec.count("cycles")
                rec.nontrivial(f"source|v{int(valid)}r{int(ready)}w{int(bool(d))}")
                if rec.viol_total:
                    return
            rec.check("source:every_item_emitted_exactly_once", got == sent, case=case, detail={"written": len(sent), "transferred": len(got)})
            rec.count("items", len(got))

        sim.add_testbench(drv)
        sim.run()


def run_sink(rec, rnd, cycles, case):
    width = case["width"]
    with DependencyContext(DependencyManager()):
        dut = StreamSink(width)
        circ = SimpleTestCircuit(dut)
        sim = PysimSimulator(circ, max_cycles=cycles + 20)

        async def drv(ctx):
            trig = ctx.tick().sample(circ.read.adapter.done, circ.read.adapter.data_out, circ.peek.adapter.done, circ.peek.adapter.data_out, dut.i.ready)
            valid, payload, n = 0, 0, 0
            produced, consumed = [], []
            pv, per, pep = probs(rnd), probs(rnd), probs(rnd)
            log = collections.deque(maxlen=8)
            for cyc in range(cycles):
                if cyc % 50 == 49:
                    pv, per, pep = probs(rnd), probs(rnd), probs(rnd)
                if not valid and rnd.random() < pv:  # a protocol-abiding producer: valid stays until accepted
                    valid, payload = 1, (n * 5 + 1) & ((1 << width) - 1)
                    n += 1
                    produced.append(payload)
                er, ep = rnd.random() < per, rnd.random() < pep
                ctx.set(dut.i.valid, valid)
                ctx.set(dut.i.payload, payload)
                ctx.set(circ.read.adapter.en, er)
                ctx.set(circ.peek.adapter.en, ep)
                _, _, dr, outr, dp, outp, ready = await trig
                log.append({"cycle": cyc, "valid": valid, "payload": payload, "read_en": er, "peek_en": ep, "read_done": bool(dr), "peek_done": bool(dp), "i.ready": int(ready)})
                det = {"last_cycles": list(log)}
                rec.check("sink:read_ready_iff_valid", bool(dr) == bool(er and valid), case=case, detail=det)
                rec.check("sink:peek_ready_iff_valid", bool(dp) == bool(ep and valid), case=case, detail=det)
                rec.check("sink:transfer_happens_exactly_when_read_executes", bool(ready) == bool(dr), case=case, detail=det)
                if dr:
                    consumed.append(int(outr.data))
                    rec.check("sink:read_returns_payload", outr.data == payload, case=case, detail=det)
                if dp:
                    rec.check("sink:peek_returns_payload", outp.data == payload, case=case, detail=det)
                if dp and not dr:
                    rec.count("peek_without_read_cycles")
                if valid and ready:
                    valid = 0
                rec.count("cycles")
                rec.nontrivial(f"sink|v{valid}r{int(bool(dr))}p{int(bool(dp))}")
                if rec.viol_total:
                    return
            rec.check("sink:consumes_exactly_the_transferred_items_in_order", consumed == produced[:len(consumed)] and len(produced) - len(consumed) <= 1, case=case,
                      detail={"produced": len(produced), "consumed": len(consumed)})
            rec.count("items", len(consumed))

        sim.add_testbench(drv)
        sim.run()


def run_wrapper(rec, rnd, cycles, case):
    width, depth = case["width"], case["depth"]
    with DependencyContext(DependencyManager()):
        dut = StreamModuleWrapper(StreamBuf(width, depth))
        circ = SimpleTestCircuit(dut, exclude={"module"})
        sim = PysimSimulator(circ, max_cycles=cycles + 60)

        async def drv(ctx):
            trig = ctx.tick().sample(circ.write.adapter.done, circ.read.adapter.done, circ.read.adapter.data_out)
            sent, got = [], []
            n = 0
            pw, pr = probs(rnd), probs(rnd)
            for cyc in range(cycles + 40):
                drain = cyc >= cycles
                if cyc % 50 == 49:
                    pw, pr = probs(rnd), probs(rnd)
                val = (n * 3 + 1) & ((1 << width) - 1)
                ctx.set(circ.write.adapter.en, (not drain) and rnd.random() < pw)
                ctx.set(circ.write.adapter.data_in, {"data": val})
                ctx.set(circ.read.adapter.en, drain or rnd.random() < pr)
                _, _, dw, dr, out = await trig
                if dr:
                    got.append(int(out.data))
                    rec.check("wrapper:items_leave_in_write_order", len(got) <= len(sent) and got[-1] == sent[len(got) - 1], case=case,
                              detail={"cycle": cyc, "read": got[-3:], "written": sent[max(0, len(got) - 3):len(got) + 1]})
                if dw:
                    sent.append(val)
                    n += 1
                # capacity of the chain: source register + buffer depth (+ nothing in the sink)
                rec.check("wrapper:in_flight_bounded_by_capacity", len(sent) - len(got) <= depth + 1, case=case, detail={"cycle": cyc, "in_flight": len(sent) - len(got)})
                rec.count("cycles")
                if len(sent) - len(got) == depth + 1:
                    rec.count("wrapper_full_cycles")
                rec.nontrivial(f"wrapper|d{depth}|inflight{len(sent) - len(got)}|w{int(bool(dw))}r{int(bool(dr))}")
                if rec.viol_total:
                    return
            rec.check("wrapper:no_item_lost_or_duplicated", got == sent, case=case, detail={"written": len(sent), "read": len(got)})
            rec.count("items", len(got))

        sim.add_testbench(drv)
        sim.run()


def shards(tier, seed):
    n = 36 if tier == "quick" else 900
    per = 3 if tier == "quick" else 15
    return [{"seed": seed, "first": i, "n": per, "cycles": 400 if tier == "quick" else 1500} for i in range(0, n, per)]


def run_shard(spec, rec):
    for i in range(spec["first"], spec["first"] + spec["n"]):
        rnd = random.Random(f"C29:{spec['seed']}:{i}")
        kind = ["source", "sink", "wrapper"][i % 3]
        case = {"adapter": kind, "width": rnd.choice([1, 4, 8, 16]), "depth": 1 + (i // 3) % 4, "history": i}
        try:
            {"source": run_source, "sink": run_sink, "wrapper": run_wrapper}[kind](rec, rnd, spec["cycles"], case)
        except Exception:
            if not rec.viol_total:
                rec.check("constructs_and_simulates", False, case=case, detail=traceback.format_exc()[-1200:])
        rec.count("histories")
        if len(rec.samples) < 2:
            rec.sample(case)


RULE = ("StreamSource: writes with unique payloads against a consumer whose ready is random (probabilities re-drawn every 50 cycles); monitor: valid and "
        "payload stable while stalled, write ready iff not valid or ready, transferred sequence == written sequence; StreamSink: protocol-abiding producer, "
        "read/peek ready iff valid, i.ready exactly in cycles where read executed, peek never transfers; StreamModuleWrapper around a harness-written "
        "registered stream buffer of depth 1-4: order, no loss, bounded in-flight; distinct non-trivial case = (adapter, valid/ready/done combination, "
        "occupancy)")
ASSUMPTIONS = ["the wrapped stream module (harness-written buffer) itself obeys the protocol"]
MINIMA = {"quick": {"cycles": 8000, "items": 2000, "stalled_cycles": 300, "peek_without_read_cycles": 200, "wrapper_full_cycles": 100, "distinct": 30},
          "thorough": {"cycles": 800000, "distinct": 40}}
