"""C42 - DependencyManager keys behave as documented."""

from __future__ import annotations

import random
from dataclasses import dataclass

from transactron.utils.dependencies import DependencyManager, DependencyContext, SimpleKey, ListKey, DependencyKey
from transactron.lib.dependencies import UnifierKey

from ..py import dmcontracts

ENGINE = "pymon"
EVALUATIONS = "operations"
TECHNIQUE = "runtime monitoring: generated add/get histories on the real DependencyManager checked against a sequential reference model, with observation-only icontract postconditions on the real methods"


@dataclass(frozen=True)
class SPlain(SimpleKey[object]):
    tag: int = 0


@dataclass(frozen=True)
class SDefault(SimpleKey[object]):
    tag: int = 0
    empty_valid = True
    default_value = "DEFAULT"


@dataclass(frozen=True)
class SNoLock(SimpleKey[object]):
    tag: int = 0
    lock_on_get = False


@dataclass(frozen=True)
class SDefaultNoLock(SimpleKey[object]):
    tag: int = 0
    empty_valid = True
    lock_on_get = False
    default_value = "DEFAULT2"


@dataclass(frozen=True)
class LPlain(ListKey[object]):
    tag: int = 0


@dataclass(frozen=True)
class LNoLock(ListKey[object]):
    tag: int = 0
    lock_on_get = False


@dataclass(frozen=True)
class LNoCacheNoLock(ListKey[object]):
    tag: int = 0
    lock_on_get = False
    cache = False


class FakeUnifier:
    def __init__(self, methods):
        self.methods = list(methods)
        self.method = ("unified", tuple(id(m) for m in methods))


@dataclass(frozen=True)
class UKey(UnifierKey, unifier=FakeUnifier):
    tag: int = 0
    lock_on_get = False


@dataclass(frozen=True)
class UKeyLock(UnifierKey, unifier=FakeUnifier):
    tag: int = 0


KEY_CLASSES = [SPlain, SDefault, SNoLock, SDefaultNoLock, LPlain, LNoLock, LNoCacheNoLock, UKey, UKeyLock]


class Obj:
    """Dependencies are unique objects that refuse == (like Amaranth values): only identity may be used."""

    n = 0

    def __init__(self):
        Obj.n += 1
        self.i = Obj.n

    def __eq__(self, other):
        raise TypeError("dependency compared with ==")

    __hash__ = object.__hash__

    def __repr__(self):
        return f"Obj#{self.i}"


class RefManager:
    def __init__(self):
        self.deps: dict = {}
        self.locked: set = set()
        self.seen: set = set()

    def add(self, key, obj):
        if key in self.locked:
            return ("raise", KeyError)
        self.deps.setdefault(key, []).append(obj)
        return ("ok",)

    def get_optional(self, key):
        if key.lock_on_get:
            self.locked.add(key)
        if not key.empty_valid and key not in self.deps:
            return ("value", None)
        data = self.deps.setdefault(key, [])
        if isinstance(key, SimpleKey):
            if len(data) == 0:
                return ("value", key.default_value)
            if len(data) != 1:
                return ("raise", RuntimeError)
            return ("value", data[0])
        if isinstance(key, ListKey):
            return ("list", list(data))
        # unifier keys
        if len(data) == 1:
            return ("unifier", data[0], 0)
        return ("unifier", None, len(data))


def same(exp, got):
    if exp[0] == "value":
        return got is exp[1] or (isinstance(exp[1], str) and got == exp[1])
    if exp[0] == "list":
        return isinstance(got, list) and len(got) == len(exp[1]) and all(a is b for a, b in zip(got, exp[1]))
    if exp[0] == "unifier":
        if exp[1] is not None:
            return isinstance(got, tuple) and got[0] is exp[1] and tuple(got[1]) == ()
        return isinstance(got, tuple) and isinstance(got[0], tuple) and got[0][0] == "unified" and len(got[0][1]) == exp[2] and len(tuple(got[1])) == 1
    return False


def one_history(rec, rnd, idx, nops):
    nman = rnd.randint(1, 3)
    mans = [(DependencyManager(), RefManager()) for _ in range(nman)]
    keys = [rnd.choice(KEY_CLASSES)(tag=rnd.randrange(2)) for _ in range(rnd.randint(2, 6))]
    log = []
    p_add = rnd.choice([0.3, 0.5, 0.7])
    depth = 0
    ctxs = []
    # nest the managers through DependencyContext; operations address DependencyContext.get()
    order = list(range(nman))
    rnd.shuffle(order)
    import contextlib

    with contextlib.ExitStack() as stack:
        active = []
        for step in range(nops):
            r = rnd.random()
            if (not active or r < 0.05) and len(active) < nman:
                m = order[len(active)]
                stack.enter_context(DependencyContext(mans[m][0]))
                active.append(m)
                rec.check("context_get_returns_innermost", DependencyContext.get() is mans[m][0], case={"history": idx}, detail=log[-6:])
                continue
            real, ref = mans[active[-1]]
            rec.check("context_get_returns_innermost", DependencyContext.get() is real, case={"history": idx}, detail=log[-6:])
            key = rnd.choice(keys)
            case = {"history": idx, "manager": active[-1], "key": repr(key), "lock_on_get": key.lock_on_get, "cache": key.cache,
                    "empty_valid": key.empty_valid}
            rec.count("operations")
            if rnd.random() < p_add:
                obj = Obj()
                exp = ref.add(key, obj)
                try:
                    real.add_dependency(key, obj)
                    got = ("ok",)
                except KeyError:
                    got = ("raise", KeyError)
                except Exception as ex:  # any other exception is an observable outcome too, never a harness crash
                    got = ("raise_other", type(ex))
                log.append(("add", repr(key), repr(obj), got[0]))
                if exp[0] == "raise":
                    rec.count("add_after_locking_get")
                    rec.check("add_after_locking_get_raises", got[0] == "raise", case=case, detail=log[-8:])
                else:
                    if key in ref.seen and not key.lock_on_get:
                        rec.count("add_after_get_on_nonlocking_key")
                    rec.check("add_accepted_when_not_locked", got[0] == "ok", case=case, detail=log[-8:])
            else:
                optional = rnd.random() < 0.5
                exp = ref.get_optional(key)
                ref.seen.add(key)
                try:
                    val = real.get_optional_dependency(key) if optional else real.get_dependency(key)
                    got = ("value", val)
                except KeyError:
                    got = ("raise", KeyError)
                except RuntimeError:
                    got = ("raise", RuntimeError)
                except Exception as ex:  # e.g. AttributeError from a key without default: an observable outcome, judged by the conditions below
                    got = ("raise_other", type(ex))
                log.append(("get_opt" if optional else "get", repr(key), got[0] + (":" + got[1].__name__ if got[0] == "raise_other" else "")))
                if exp[0] == "raise":
                    rec.count("simple_key_with_several_dependencies")
                    rec.check("simple_key_with_several_dependencies_raises", got[0] == "raise" and got[1] is RuntimeError, case=case, detail=log[-8:])
                elif exp[0] == "value" and exp[1] is None:
                    rec.count("missing_dependency_reads")
                    if optional:
                        rec.check("missing_dependency_optional_is_none", got[0] == "value" and got[1] is None, case=case, detail=log[-8:])
                    else:
                        rec.check("missing_dependency_raises_keyerror", got[0] == "raise" and got[1] is KeyError, case=case, detail=log[-8:])
                else:
                    kind = "list" if isinstance(key, ListKey) else "simple" if isinstance(key, SimpleKey) else "unifier"
                    if exp[0] == "value" and isinstance(exp[1], str):
                        rec.count("default_value_reads")
                    if exp[0] == "list" and len(exp[1]) >= 2:
                        rec.count("list_reads_with_several_items")
                    rec.check(f"{kind}_key_returns_model_value", got[0] == "value" and same(exp, got[1]), case=case,
                              detail={"expected": repr(exp)[:300], "observed": repr(got)[:300], "log": log[-8:]})
            rec.nontrivial(f"{type(key).__name__}|{log[-1][0]}|{log[-1][-1]}|n{min(3, len(ref.deps.get(key, [])))}|seen{int(key in ref.seen)}")
    if len(rec.samples) < 2:
        rec.sample({"history": idx, "managers": nman, "keys": [repr(k) for k in keys], "first_ops": log[:12]})


def shards(tier, seed):
    n = 320 if tier == "quick" else 96000
    per = 20 if tier == "quick" else 250
    return [{"seed": seed, "first": i, "n": per, "ops": 60 if tier == "quick" else 120} for i in range(0, n, per)]


def run_shard(spec, rec):
    how = dmcontracts.install()
    before = dict(dmcontracts.STATS)
    for i in range(spec["first"], spec["first"] + spec["n"]):
        one_history(rec, random.Random(f"C42:{spec['seed']}:{i}"), i, spec["ops"])
    for k, v in dmcontracts.STATS.items():
        d = v - before.get(k, 0)
        if d:
            rec.count(f"contract:{k}", d)
    rec.count(f"contracts_via_{how}")
    for v in dmcontracts.VIOLATIONS:
        rec.check("contract:" + v["contract"], False, case=v, detail=v)
    rec.check("contracts_silent", not dmcontracts.VIOLATIONS) if not dmcontracts.VIOLATIONS else None
    dmcontracts.VIOLATIONS.clear()


RULE = ("random add / get / get_optional histories (60-120 operations) over 2-6 keys drawn from nine key classes (simple: plain, with default, non-locking; "
        "list: plain, non-locking, non-caching; unifier keys locking and non-locking) on 1-3 managers nested through DependencyContext; dependencies are "
        "unique objects that raise on ==; every result compared with a sequential reference model (identity and order), and observation-only icontract "
        "postconditions on the real add_dependency/get_optional_dependency (cache invalidated by add, list grew by exactly the object, cache hits never "
        "older than the last add); distinct non-trivial case = (key class, operation, outcome, number of dependencies, read-before)")
ASSUMPTIONS = ["keys used have pure combine functions", "contracts never call key.combine and never compare stored values with =="]
MINIMA = {"quick": {"operations": 10000, "add_after_locking_get": 300, "add_after_get_on_nonlocking_key": 300, "default_value_reads": 100,
                    "list_reads_with_several_items": 300, "contract:cache_hits_checked": 300, "simple_key_with_several_dependencies": 30, "distinct": 60},
          "thorough": {"operations": 500000, "distinct": 100}}
