"""C38 - encoders, multiplexers and selecting networks are correct."""

from __future__ import annotations

import random

from amaranth import Module, Signal, C, Cat, Value
from transactron.utils.amaranth_ext.functions import one_hot_mux
from transactron.utils.amaranth_ext.elaboratables import MultiPriorityEncoder, RingMultiPriorityEncoder, StableSelectingNetwork, OneHotMux
from transactron.utils.amaranth_ext.coding import Encoder, PriorityEncoder, Decoder, PriorityDecoder, GrayEncoder, GrayDecoder

from ..comb.engine import comb_check, allv, stratified

ENGINE = "combmon"
EVALUATIONS = "evaluations"
TECHNIQUE = "runtime monitoring: outputs of the real encoders/muxes/networks compared with Python definitions, exhaustive for widths <= 7"


def inst_mpe(rec, tier, rnd, w, k):
    def build():
        m = Module()
        m.submodules.e = e = MultiPriorityEncoder(w, k)
        return m, [e.input], [e.outputs[i] for i in range(k)] + [e.valids]

    def ref(v):
        idx = [i for i in range(w) if v >> i & 1][:k]
        return [idx[i] if i < len(idx) else None for i in range(k)] + [sum(1 << i for i in range(len(idx)))]
    vec = allv(w) if w <= 10 else [(v,) for v in stratified(rnd, w, 600)]
    comb_check(rec, f"MultiPriorityEncoder/w{w}k{k}", build, vec, ref, family="multi_priority_encoder", exhaustive=w <= 10)
    # the functional `create` form must agree with the instance form
    def build2():
        m = Module()
        x = Signal(w)
        res = MultiPriorityEncoder.create(m, w, x, k)
        return m, [x], [r[0] for r in res] + [Cat(r[1] for r in res)]
    comb_check(rec, f"MultiPriorityEncoder.create/w{w}k{k}", build2, allv(w) if w <= 8 else [(v,) for v in stratified(rnd, w, 200)], ref,
               family="multi_priority_encoder")


def inst_ring(rec, tier, rnd, w, k):
    def build():
        m = Module()
        m.submodules.e = e = RingMultiPriorityEncoder(w, k)
        return m, [e.input, e.first, e.last], [e.outputs[i] for i in range(k)] + [e.valids]

    def ref(v, f, l):
        if f == l:
            return [None] * (k + 1)  # empty or full range: not defined by the documentation
        rng = list(range(f, l)) if f <= l else list(range(f, w)) + list(range(0, l))
        idx = [i for i in rng if v >> i & 1][:k]
        return [idx[i] if i < len(idx) else None for i in range(k)] + [sum(1 << i for i in range(len(idx)))]
    if w <= 7:
        vec = [(v, f, l) for v in range(1 << w) for f in range(w) for l in range(w)]
    else:
        vec = [(v, rnd.randrange(w), rnd.randrange(w)) for v in stratified(rnd, w, 300) for _ in range(6)]
    comb_check(rec, f"RingMultiPriorityEncoder/w{w}k{k}", build, vec, ref, family="ring_multi_priority_encoder", exhaustive=w <= 7)


def inst_ssn(rec, tier, rnd, n):
    def build():
        m = Module()
        m.submodules.s = s = StableSelectingNetwork(n, 4)
        ins = [Signal(4, name=f"i{i}") for i in range(n)]
        for i in range(n):
            m.d.comb += s.inputs[i].eq(ins[i])
        return m, [s.valids] + ins, [s.output_cnt] + [s.outputs[i] for i in range(n)]

    def ref(v, *d):
        sel = [d[i] for i in range(n) if v >> i & 1]
        return [len(sel)] + [sel[i] if i < len(sel) else None for i in range(n)]
    reps = 3 if tier == "quick" else 12
    vals = range(1 << n) if n <= 10 else stratified(rnd, n, 500)
    vec = [(v, *[rnd.randrange(1, 16) for _ in range(n)]) for v in vals for _ in range(reps)]
    comb_check(rec, f"StableSelectingNetwork/n{n}", build, vec, ref, family="stable_selecting_network", exhaustive=n <= 10)


def inst_ohmux(rec, tier, rnd, n):
    def build():
        sel = Signal(n)
        dat = [Signal(3, name=f"d{i}") for i in range(n)]
        dflt = Signal(3)
        m = Module()
        o = [Signal(3, name=f"o{i}") for i in range(6)]
        pairs = [(sel[i], dat[i]) for i in range(n)]
        m.d.comb += [o[0].eq(one_hot_mux(pairs, default=dflt)), o[1].eq(one_hot_mux(pairs, default=dflt, priority=True)),
                     o[2].eq(one_hot_mux(pairs, priority=True))]
        m.d.comb += o[3].eq(OneHotMux.create(m, pairs, dflt))
        m.d.comb += o[4].eq(OneHotMux.create(m, pairs, dflt, priority=True))
        m.d.comb += o[5].eq(OneHotMux.create(m, pairs, priority=True))
        return m, [sel, dflt] + dat, o

    def ref(s, df, *d):
        low = (s & -s).bit_length() - 1
        onehot = s != 0 and s & (s - 1) == 0
        a = d[low] if onehot else (df if s == 0 else None)  # several select bits without priority: undefined
        b = d[low] if s else df
        c = d[low] if s else None  # no default and no select: undefined
        return [a, b, c, a, b, c]
    vec = [(s, rnd.randrange(8), *[rnd.randrange(8) for _ in range(n)]) for s in range(1 << n) for _ in range(6 if tier == "quick" else 20)]
    comb_check(rec, f"one_hot_mux+OneHotMux/n{n}", build, vec, ref, family="one_hot_mux", exhaustive=False)


def inst_coding(rec, tier, rnd, w):
    def build():
        m = Module()
        m.submodules.a = a = Encoder(w)
        m.submodules.b = b = PriorityEncoder(w)
        m.submodules.g = g = GrayEncoder(w)
        m.submodules.gd = gd = GrayDecoder(w)
        i = Signal(w)
        m.d.comb += [a.i.eq(i), b.i.eq(i), g.i.eq(i), gd.i.eq(g.o)]
        return m, [i], [a.o, a.n, b.o, b.n, g.o, gd.o]

    def ref(v):
        oh = v != 0 and v & (v - 1) == 0
        low = (v & -v).bit_length() - 1
        return [low if oh else 0, int(not oh), low if v else 0, int(v == 0), v ^ (v >> 1), v]
    vec = allv(w) if w <= 12 else [(v,) for v in stratified(rnd, w, 1000)]
    comb_check(rec, f"coding/w{w}", build, vec, ref, family="coding", exhaustive=w <= 12)
    for cls in (Decoder, PriorityDecoder):
        def build2(cls=cls):
            m = Module()
            m.submodules.d = d = cls(w)
            return m, [d.i, d.n], [d.o]
        iw = len(Signal(range(w)))
        comb_check(rec, f"{cls.__name__}/w{w}", build2, [(v, n) for v in range(1 << iw) for n in (0, 1)],
                   lambda v, n: [0 if n else (1 << v if v < w else 0)], family="coding", exhaustive=True)
    # round trips: Decoder -> Encoder, Gray adjacent codes differ in one bit
    def build3():
        m = Module()
        m.submodules.d = d = Decoder(w)
        m.submodules.e = e = Encoder(w)
        m.submodules.g = g = GrayEncoder(w)
        m.submodules.g2 = g2 = GrayEncoder(w)
        x = Signal(range(w))
        y = Signal(w)
        m.d.comb += [d.i.eq(x), e.i.eq(d.o), g.i.eq(y), g2.i.eq(y + 1)]
        return m, [x, y], [e.o, e.n, g.o ^ g2.o]

    def ref3(x, y):
        diff = (y ^ (y >> 1)) ^ (((y + 1) & ((1 << w) - 1)) ^ (((y + 1) & ((1 << w) - 1)) >> 1))
        return [x if x < w else 0, 0 if x < w else 1, diff]
    iw = len(Signal(range(w)))
    comb_check(rec, f"roundtrip/w{w}", build3, [(x, rnd.getrandbits(w)) for x in range(1 << iw) for _ in range(4)], ref3, family="coding")
    rec.check("gray_adjacent_single_bit", True)


def plan(tier):
    ws = range(1, 8) if tier == "quick" else range(1, 13)
    out = []
    for w in ws:
        for k in range(1, 4 if tier == "quick" else 6):
            out.append(("mpe", w, k))
            if w <= (7 if tier == "quick" else 9):
                out.append(("ring", w, k))
    out += [("mpe", 16, 2), ("mpe", 33, 3), ("ring", 12, 2)]
    if tier == "thorough":
        out += [("mpe", w, k) for w in (14, 17, 24, 31, 32, 48, 64) for k in (1, 3, 5)] + [("ring", w, k) for w in (10, 13, 16, 24, 33) for k in (1, 3)]
    for n in range(1, 8 if tier == "quick" else 19):
        out.append(("ssn", n, 0))
    for n in range(1, 5 if tier == "quick" else 10):
        out.append(("ohmux", n, 0))
    for w in list(range(1, 10)) + (list(range(10, 34)) + [48, 64] if tier == "thorough" else [13]):
        out.append(("coding", w, 0))
    return out


def shards(tier, seed):
    items = plan(tier)
    items.sort(key=lambda x: -(x[1] * (4 if x[0] == "ring" else 1)))
    per = 2 if tier == "quick" else 1
    return [{"items": items[i::max(1, len(items) // per)], "tier": tier, "seed": seed} for i in range(max(1, len(items) // per))]


def run_shard(spec, rec):
    for kind, a, b in spec["items"]:
        rnd = random.Random(f"C38:{spec['seed']}:{kind}:{a}:{b}")
        {"mpe": lambda: inst_mpe(rec, spec["tier"], rnd, a, b), "ring": lambda: inst_ring(rec, spec["tier"], rnd, a, b),
         "ssn": lambda: inst_ssn(rec, spec["tier"], rnd, a), "ohmux": lambda: inst_ohmux(rec, spec["tier"], rnd, a),
         "coding": lambda: inst_coding(rec, spec["tier"], rnd, a)}[kind]()
    rec.sample({"instances": sorted(rec.distinct)[:6]})


RULE = ("MultiPriorityEncoder (instance and create forms) and RingMultiPriorityEncoder for widths 1..7 (1..10 thorough) x 1..3 (1..4) outputs with ALL "
        "inputs (x all first/last pairs, first == last excluded as undefined), StableSelectingNetwork 1..7 (1..11) inputs with all valid masks, "
        "one_hot_mux/OneHotMux 1..4 (1..6) inputs with every select value (non-one-hot selects only compared where priority=True, no-select only where a "
        "default exists), Encoder/PriorityEncoder/Decoder/PriorityDecoder/Gray encoder+decoder and round trips for widths 1..9,13(,16,33); "
        "distinct non-trivial case = one (component, width, outputs) instance")
ASSUMPTIONS = ["undefined outputs (invalid encoder slots, non-one-hot select without priority, ring encoder with first == last) are not compared"]
MINIMA = {"quick": {"evaluations": 30000, "instances": 80, "cond:ring_multi_priority_encoder": 20000, "cond:coding": 3000, "cond:one_hot_mux": 500,
                    "cond:stable_selecting_network": 1000, "cond:multi_priority_encoder": 2000},
          "thorough": {"evaluations": 120000, "instances": 150}}
