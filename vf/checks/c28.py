"""C28 - PipelineBuilder pipelines are ordered, lossless and compute the composed stages."""

from __future__ import annotations

import collections
import random
import traceback

from amaranth import C, Elaboratable
from transactron import Method, TModule
from transactron.lib import PipelineBuilder, Adapter, AdapterTrans
from transactron.testing import SimpleTestCircuit, PysimSimulator, TestbenchIO
from transactron.utils import ModuleConnector
from transactron.utils.dependencies import DependencyContext, DependencyManager

ENGINE = "compmon"
TECHNIQUE = "runtime monitoring: generated pipelines with unique item ids; every stage mock and the sink are checked online against per-stage expected queues (exactly-once, order, composed field values, clear semantics)"


def gen(rnd):
    """A random pipeline shape: list of stages; every stage = dict(kind, ...)."""
    stages, live, nf = [], ["id", "a"], 0
    width = {"id": 8, "a": 8}  # current width of every live field (a stage may re-generate a field with another width)
    for k in range(rnd.randint(1, 5)):
        r = rnd.random()
        fifo = rnd.choice([None, None, 1, 2, 4])
        others = [f for f in live if f != "id"]
        if r < 0.45:
            cons = sorted(rnd.sample(others, rnd.randint(1, min(2, len(others)))))
            if rnd.random() < 0.7 or len(live) < 3:
                out = f"f{nf}"
                nf += 1
            else:
                out = rnd.choice(cons)  # overwrite a live field that this stage itself consumes (otherwise its producer would be unused)
            ow = rnd.choice([4, 8, 8, 12, 16])
            stages.append({"kind": "func", "cons": cons, "cw": [width[c] for c in cons], "out": out, "ow": ow, "k": k, "fifo": fifo,
                           "inferred": rnd.random() < 0.5})
            width[out] = ow
            if out not in live:
                live.append(out)
        elif r < 0.78:
            x = rnd.choice(others)
            out = f"f{nf}"
            nf += 1
            ow = rnd.choice([4, 8, 8, 16])
            stages.append({"kind": "call", "x": x, "xw": width[x], "out": out, "ow": ow, "k": k, "fifo": fifo})
            width[out] = ow
            live.append(out)
        else:
            out = f"f{nf}"
            nf += 1
            ow = rnd.choice([4, 8, 8, 16])
            stages.append({"kind": "ext", "out": out, "ow": ow, "k": k, "fifo": fifo, "nodep": rnd.random() < 0.6})
            width[out] = ow
            live.append(out)
    return stages, [(f, width[f]) for f in live]


class Pipe(Elaboratable):
    def __init__(self, stages, live):
        self.stages, self.live = stages, live
        self.src = Method(i=[("id", 8), ("a", 8)])
        self.snk = Method(o=list(live))
        self.clear = Method()
        self.calls, self.exts = {}, {}
        for st in stages:
            if st["kind"] == "call":
                self.calls[st["k"]] = Method(i=[("id", 8), (st["x"], st["xw"])], o=[(st["out"], st["ow"])])
            if st["kind"] == "ext":
                self.exts[st["k"]] = Method(i=[(st["out"], st["ow"])])

    def elaborate(self, platform):
        m = TModule()
        m.submodules.p = pb = PipelineBuilder()
        pb.add_external(self.src)
        for st in self.stages:
            if st["kind"] == "func":
                def mk(cons=st["cons"], out=st["out"], k=st["k"], ow=st["ow"], inferred=st["inferred"]):
                    if inferred:
                        # named parameters: the builder infers the input layout from the live signal shapes
                        ns = {"C": C, "out": out, "k": k, "ow": ow}
                        exec(f"def f({', '.join(cons)}):\n    return {{out: (sum([{', '.join(cons)}], start=C(k + 1, 16)))[:ow]}}", ns)
                        return ns["f"]

                    def f(**kw):
                        return {out: sum((kw[c] for c in cons), start=C(k + 1, 16))[:ow]}
                    return f
                if st["inferred"]:
                    pb.stage(m, o=[(st["out"], st["ow"])])(mk())
                else:
                    pb.stage(m, o=[(st["out"], st["ow"])], i=[(c, w) for c, w in zip(st["cons"], st["cw"])])(mk())
            elif st["kind"] == "call":
                pb.call_method(self.calls[st["k"]])
            else:
                pb.add_external(self.exts[st["k"]], no_dependency=st["nodep"])
            if st["fifo"] is not None:
                pb.fifo(st["fifo"])
        pb.add_external(self.snk)
        self.clear.provide(pb.clear)
        return m


def run_pipeline(rec, rnd, cycles, idx, clear_p):
    stages, live = gen(rnd)
    case = {"pipeline": idx, "stages": stages, "sink_fields": live, "clear_probability": clear_p}
    with DependencyContext(DependencyManager()):
        try:
            dut = Pipe(stages, live)
            mocks = {k: TestbenchIO(Adapter.create(mth)) for k, mth in dut.calls.items()}
            circ = SimpleTestCircuit(dut, exclude={"calls", "exts"})
            ext_tb = {k: TestbenchIO(AdapterTrans.create(mth)) for k, mth in dut.exts.items()}
            # every second pipeline has a second, competing caller on its source and sink methods
            rv = None
            if idx % 2 == 1:
                from ..comp.driver import RivalSet
                rv = RivalSet({"src": dut.src, "snk": dut.snk})
                rec.count("histories_with_rival_callers")
            top = ModuleConnector(circ, *mocks.values(), *ext_tb.values(), *([rv] if rv is not None else []))
            sim = PysimSimulator(top, max_cycles=cycles + 80)
            from .. import txsan, passive
            txsan.maybe_attach(sim, case)
            passive.maybe_attach(sim, case)
        except Exception:
            rec.check("builder_accepts_well_formed_pipeline", False, case=case, detail=traceback.format_exc()[-1500:])
            return
        rec.check("builder_accepts_well_formed_pipeline", True)
        order = [st["k"] for st in stages if st["kind"] in ("call", "ext")]  # observable intermediate stages, in pipeline order
        kind_of = {st["k"]: st for st in stages}
        tot = collections.Counter()

        async def drv(ctx):
            sig = [circ.src.adapter.done, circ.snk.adapter.done, circ.snk.adapter.data_out, circ.clear.adapter.done]
            for k in mocks:
                sig += [mocks[k].adapter.done, mocks[k].adapter.data_out]
            for k in ext_tb:
                sig += [ext_tb[k].adapter.done]
            if rv is not None:
                sig += rv.signals()
            trig = ctx.tick().sample(*sig)
            nid = 0
            # pending[s] = items (dicts of field values known so far) that have passed everything before observable stage s
            # and not yet stage s; pending["snk"] for the sink. ext stages with no_dependency may run ahead: their supplied values
            # are queued in extq and joined to items when the item passes.
            pending = {s: collections.deque() for s in order + ["snk"]}
            extq = {k: collections.deque() for k in ext_tb}
            extn = {k: 0 for k in ext_tb}
            pr = {n: rnd.choice([0.3, 0.7, 1.0]) for n in ["src", "snk"] + list(mocks) + list(ext_tb)}
            log = collections.deque(maxlen=8)

            def nxt(s):
                i = order.index(s)
                return order[i + 1] if i + 1 < len(order) else "snk"

            def first():
                return order[0] if order else "snk"

            for cyc in range(cycles + 60):
                drain = cyc >= cycles
                if cyc % 60 == 59:
                    pr = {n: rnd.choice([0.3, 0.7, 1.0]) for n in pr}
                if rv is not None:
                    rv.request(ctx, rnd, "src", circ.src, (not drain) and rnd.random() < pr["src"], {"id": nid & 255, "a": (nid * 7 + 3) & 255}, rec)
                    rv.request(ctx, rnd, "snk", circ.snk, drain or rnd.random() < pr["snk"], None, rec)
                else:
                    ctx.set(circ.src.adapter.en, (not drain) and rnd.random() < pr["src"])
                    ctx.set(circ.src.adapter.data_in, {"id": nid & 255, "a": (nid * 7 + 3) & 255})
                    ctx.set(circ.snk.adapter.en, drain or rnd.random() < pr["snk"])
                ctx.set(circ.clear.adapter.en, (not drain) and rnd.random() < clear_p)
                for k, tb in mocks.items():
                    ctx.set(tb.adapter.en, drain or rnd.random() < pr[k])
                for k, tb in ext_tb.items():
                    ctx.set(tb.adapter.en, drain or rnd.random() < pr[k])
                    ctx.set(tb.adapter.data_in, {kind_of[k]["out"]: (extn[k] * 11 + 5) & ((1 << kind_of[k]["ow"]) - 1)})
                for k, tb in mocks.items():  # argument-dependent return value of the called-method mocks (settled argument)
                    st = kind_of[k]
                    arg = getattr(ctx.get(tb.adapter.data_out), st["x"])
                    ctx.set(tb.adapter.data_in, {st["out"]: (arg + 17) & ((1 << st["ow"]) - 1)})
                _, _, d_src, d_snk, o_snk, d_clr, *rest = await trig
                if rv is not None:
                    rvals, rest = rest[-4:], rest[:-4]
                    d_src, _ = rv.fold(rec, case, "src", d_src, None, rvals, {"cycle": cyc})
                    d_snk, o_snk = rv.fold(rec, case, "snk", d_snk, o_snk, rvals, {"cycle": cyc})
                i = 0
                mdone, edone = {}, {}
                for k in mocks:
                    mdone[k] = (bool(rest[i]), rest[i + 1])
                    i += 2
                for k in ext_tb:
                    edone[k] = bool(rest[i])
                    i += 1
                log.append({"cycle": cyc, "src": bool(d_src), "snk": bool(d_snk), "clear": bool(d_clr), "called": [k for k in mdone if mdone[k][0]],
                            "ext": [k for k in edone if edone[k]], "pending": {str(s): [it["id"] for it in q] for s, q in pending.items()}})
                det = {"last_cycles": list(log)}
                rec.count("cycles")
                # 1. source
                if d_src:
                    pending[first()].append({"id": nid & 255, "a": (nid * 7 + 3) & 255})
                    nid += 1
                    tot["entered"] += 1
                else:
                    if not drain and pr["src"] >= 0.7:
                        rec.count("backpressure_cycles")
                # 2. observable intermediate stages, in pipeline order
                for s in order:
                    st = kind_of[s]
                    if st["kind"] == "call":
                        done, arg = mdone[s]
                        if done:
                            it = take_for(pending, order, kind_of, extq, s)
                            if not rec.check("stage_sees_items_exactly_once_in_entry_order", it is not None and it["id"] == arg.id, case=case,
                                             detail=dict(det, stage=s, seen_id=int(arg.id), expected=None if it is None else it["id"])):
                                return
                            vals = compute(stages, it, upto=s)
                            rec.check("stage_receives_computed_fields", vals is None or vals[st["x"]] == getattr(arg, st["x"]), case=case,
                                      detail=dict(det, stage=s, observed=int(getattr(arg, st["x"])), expected=None if vals is None else vals[st["x"]]))
                            it[st["out"]] = (int(getattr(arg, st["x"])) + 17) & ((1 << st["ow"]) - 1)
                            pending[nxt(s)].append(it)
                            rec.count("stage_visits")
                    else:
                        if edone[s]:
                            extq[s].append((extn[s] * 11 + 5) & ((1 << st["ow"]) - 1))
                            extn[s] += 1
                        # items pass an external stage as soon as a supplied value and an item are both available; the pairing is
                        # k-th value of the epoch with k-th item of the epoch, the timing is not observable here: resolved lazily
                # 3. sink
                if d_snk:
                    it = take_for(pending, order, kind_of, extq, "snk")
                    if not rec.check("sink_emits_only_entered_items", it is not None, case=case, detail=det):
                        return
                    got = {f: int(getattr(o_snk, f)) for f, _ in live}
                    if not rec.check("items_leave_in_entry_order", got["id"] == it["id"], case=case, detail=dict(det, observed=got, expected_id=it["id"])):
                        return
                    vals = compute(stages, it, upto=None)
                    bad = {f: (got[f], vals[f]) for f, _ in live if vals.get(f) is not None and got[f] != vals[f]}
                    rec.check("sink_fields_equal_composed_stage_functions", not bad, case=case, detail=dict(det, mismatches=bad, item=it))
                    tot["left"] += 1
                    rec.count("items")
                # 4. clear discards everything in flight, including what entered in this very cycle
                if d_clr:
                    n = sum(len(q) for q in pending.values())
                    rec.count("clears")
                    if n:
                        rec.count("clears_with_items_in_flight")
                    tot["dropped"] += n
                    for q in pending.values():
                        q.clear()
                    for q in extq.values():
                        q.clear()
                if rec.viol_total:
                    return
            left = sum(len(q) for q in pending.values())
            rec.check("no_item_lost", left == 0 and tot["entered"] == tot["left"] + tot["dropped"], case=case,
                      detail={"entered": tot["entered"], "left": tot["left"], "dropped_by_clear": tot["dropped"], "still_pending": left})

        sim.add_testbench(drv)
        try:
            sim.run()
        except Exception:
            if not rec.viol_total:
                rec.check("simulates", False, case=case, detail=traceback.format_exc()[-1500:])
    shape = "+".join(st["kind"] + ("F" if st["fifo"] else "") + ("N" if st.get("nodep") else "") + ("i" if st.get("inferred") else "") for st in stages)
    if any(st["kind"] == "func" and st["out"] in ("a",) + tuple(x["out"] for x in stages if x["k"] < st["k"]) for st in stages):
        rec.count("pipelines_overwriting_a_field")
    rec.nontrivial(f"{shape}|clear{int(clear_p > 0)}")
    rec.count("pipelines")
    if any(st["fifo"] for st in stages):
        rec.count("pipelines_with_fifo")
    if any(st.get("nodep") for st in stages):
        rec.count("pipelines_with_no_dependency")
    if len(rec.samples) < 2:
        rec.sample(case)


def take_for(pending, order, kind_of, extq, target):
    """The next item reaching observable point `target` (a called-method stage or "snk"): the oldest item pending between the previous
    called-method stage (or the source) and `target`, joined with the values supplied by the external stages it passes on the way
    (k-th value with k-th item of the epoch). Returns None if there is no such item or a needed external value is missing."""
    chain = [target]
    idx = order.index(target) if target != "snk" else len(order)
    for s in reversed(order[:idx]):
        if kind_of[s]["kind"] == "call":
            break
        chain.append(s)
    # the oldest item is in the non-empty queue closest to the target
    for pos, s in enumerate(chain):
        if pending[s]:
            it = pending[s].popleft()
            for t in reversed(chain[1:pos + 1]):  # external stages between its queue and the target
                if not extq[t]:
                    pending[s].appendleft(it)
                    return None
                it[kind_of[t]["out"]] = extq[t].popleft()
            return it
    return None


def compute(stages, it, upto):
    """Field values of item `it` after all stages before observable stage `upto` (None = whole pipeline). Values produced by external stages
    are taken from the item when already joined, otherwise unknown (None) - lazily resolved externals before a called stage make vals None."""
    vals = {"id": it["id"], "a": it["a"]}
    for st in stages:
        if upto is not None and st["k"] == upto:
            break
        if st["kind"] == "func":
            if any(vals.get(c) is None for c in st["cons"]):
                vals[st["out"]] = None
            else:
                vals[st["out"]] = (sum(vals[c] for c in st["cons"]) + st["k"] + 1) & ((1 << st["ow"]) - 1)
        else:
            vals[st["out"]] = it.get(st["out"])
    return vals


def shards(tier, seed):
    n = 128 if tier == "quick" else 4800
    per = 4 if tier == "quick" else 30
    return [{"seed": seed, "first": i, "n": per, "cycles": 350 if tier == "quick" else 1000} for i in range(0, n, per)]


class EmptyPoint(Elaboratable):
    """allow_empty=True: write -> [fifo] -> take (the item leaves completely) -> (no live field, only a token) -> give -> [fifo] -> read."""

    def __init__(self, fifo1, fifo2):
        self.fifo1, self.fifo2 = fifo1, fifo2
        self.write, self.take = Method(i=[("d", 8)]), Method(o=[("d", 8)])
        self.give, self.read = Method(i=[("e", 8)]), Method(o=[("e", 8)])
        self.clear = Method()

    def elaborate(self, platform):
        m = TModule()
        m.submodules.p = pb = PipelineBuilder(allow_empty=True)
        pb.add_external(self.write)
        if self.fifo1:
            pb.fifo(self.fifo1)
        pb.add_external(self.take)
        pb.add_external(self.give)
        if self.fifo2:
            pb.fifo(self.fifo2)
        pb.add_external(self.read)
        self.clear.provide(pb.clear)
        return m


def run_empty_point(rec, rnd, cycles, idx):
    """Pipelines with a point where no field is live. Safety oracle over counters of the epoch since the last clear (clear is called in cycles of
    its own): takes return the written values in order, gives never outnumber takes, reads return the given values in order, and after a clear
    nothing can be taken / given / read before something new was written / taken / given."""
    fifo1, fifo2 = rnd.choice([None, 1, 2]), rnd.choice([None, 1, 4])
    case = {"pipeline": idx, "shape": "allow_empty: write-take-(empty)-give-read", "fifos": [fifo1, fifo2]}
    with DependencyContext(DependencyManager()):
        try:
            dut = EmptyPoint(fifo1, fifo2)
            circ = SimpleTestCircuit(dut)
            sim = PysimSimulator(circ, max_cycles=cycles + 20)
        except Exception:
            rec.check("builder_accepts_well_formed_pipeline", False, case=case, detail=traceback.format_exc()[-1500:])
            return
        rec.check("builder_accepts_well_formed_pipeline", True)

        async def drv(ctx):
            ios = [circ.write, circ.take, circ.give, circ.read, circ.clear]
            trig = ctx.tick().sample(*[x for io in ios for x in (io.adapter.done, io.adapter.data_out)])
            written, given = collections.deque(), collections.deque()
            ntake = ngive = 0  # in the current epoch
            nw = ng = 0
            pr = [rnd.choice([0.3, 0.7, 1.0]) for _ in range(4)]
            log = collections.deque(maxlen=8)
            for cyc in range(cycles):
                if cyc % 50 == 49:
                    pr = [rnd.choice([0.2, 0.6, 1.0]) for _ in range(4)]
                clr = rnd.random() < 0.04
                en = [False] * 4 if clr else [rnd.random() < p for p in pr]
                wv, gv = (nw * 7 + 1) & 255, (ng * 5 + 2) & 255
                for io, e in zip(ios[:4], en):
                    ctx.set(io.adapter.en, e)
                ctx.set(circ.write.adapter.data_in, {"d": wv})
                ctx.set(circ.give.adapter.data_in, {"e": gv})
                ctx.set(circ.clear.adapter.en, clr)
                _, _, dw, _, dt, ot, dg, _, dr, orr, dc, _ = await trig
                log.append({"cycle": cyc, "write": bool(dw), "take": bool(dt), "give": bool(dg), "read": bool(dr), "clear": bool(dc),
                            "epoch": {"written_not_taken": len(written), "taken": ntake, "given": ngive, "given_not_read": len(given)}})
                det = {"last_cycles": list(log)}
                if dc:
                    if written or given or ntake > ngive:
                        rec.count("clears_with_items_in_flight")
                        if ntake > ngive:
                            rec.count("clears_with_an_item_outside_at_the_empty_point")
                    written.clear()
                    given.clear()
                    ntake = ngive = 0
                    rec.count("clears")
                    rec.count("cycles")
                    continue
                # within a cycle the item can pass several nodes (forwarding): process in pipeline order
                if dw:
                    written.append(wv)
                    nw += 1
                if dt:
                    if rec.check("empty_point:take_only_what_was_written_in_order", bool(written) and int(ot.d) == written[0], case=case,
                                 detail=dict(det, taken=int(ot.d), expected=written[0] if written else None)):
                        written.popleft()
                        ntake += 1
                    else:
                        return
                if dg:
                    if not rec.check("empty_point:give_never_runs_ahead_of_take(clear_discards_the_token)", ngive < ntake, case=case, detail=det):
                        return
                    ngive += 1
                    given.append(gv)
                    ng += 1
                if dr:
                    if rec.check("empty_point:read_only_what_was_given_in_order", bool(given) and int(orr.e) == given[0], case=case,
                                 detail=dict(det, read=int(orr.e), expected=given[0] if given else None)):
                        given.popleft()
                        rec.count("items")
                    else:
                        return
                rec.count("cycles")
                rec.nontrivial(f"empty_point|f{fifo1}{fifo2}|w{int(dw)}t{int(dt)}g{int(dg)}r{int(dr)}|out{min(ntake - ngive, 3)}")

        sim.add_testbench(drv)
        try:
            sim.run()
        except Exception:
            if not rec.viol_total:
                rec.check("simulates", False, case=case, detail=traceback.format_exc()[-1200:])
    rec.count("pipelines_with_empty_point")


def run_shard(spec, rec):
    for i in range(spec["first"], spec["first"] + spec["n"]):
        rnd = random.Random(f"C28:{spec['seed']}:{i}")
        if i % 8 == 7:
            run_empty_point(rec, rnd, spec["cycles"], i)
            continue
        run_pipeline(rec, rnd, spec["cycles"], i, clear_p=0.0 if i % 2 == 0 else rnd.choice([0.01, 0.03, 0.1]))


RULE = ("random pipelines of 1-5 stages between an external source and an external sink: function stages (sum of 1-2 live fields plus a constant, adding or "
        "overwriting a field), called-method stages (Adapter mock with random readiness that sees the item id and returns arg+17), external provided "
        "stages in the middle (values supplied by an outside caller, with and without no_dependency), each optionally followed by fifo(1/2/4); random "
        "readiness of source, sink and every mock re-drawn every 60 cycles; half of the pipelines get clear calls (p in {0.01,0.03,0.1}); per-stage "
        "expected queues; every eighth pipeline is built with allow_empty=True and has a point where no field is live (write - take - give - read, optional fifos, "
        "clear called in cycles of its own): takes return the written values in order, gives never outnumber takes, reads return the given values in order, and a "
        "clear discards everything including the token of an item that is outside; distinct non-trivial case = (sequence of stage kinds with fifo / no_dependency markers, with or without clears)")
ASSUMPTIONS = ["within a cycle: source entry, stage visits, sink exit are processed in pipeline order and a clear executed in that cycle discards everything still in flight, including an item that entered in the same cycle",
               "the k-th value supplied to an external mid-pipeline stage belongs to the k-th item of the epoch (epoch = interval between clears)"]
MINIMA = {"quick": {"cycles": 20000, "items": 5000, "stage_visits": 3000, "pipelines_with_fifo": 30, "pipelines_with_no_dependency": 10,
                    "clears_with_items_in_flight": 100, "backpressure_cycles": 500, "pipelines_with_empty_point": 5,
                    "clears_with_an_item_outside_at_the_empty_point": 20, "distinct": 40},
          "thorough": {"cycles": 2000000, "distinct": 400}}
