"""C15 - WideFifo behaves as a bounded queue with batched operations."""

from transactron.lib import WideFifo

from ..comp.common import ComponentCheck
from ..comp.models import WideM


def pick(rnd, i):
    rw, ww = 1 + (i % 4), 1 + ((i // 4) % 4)
    col = max(rw, ww)
    depth = col * rnd.randint(1, max(1, 16 // col))
    mc = (i // 16) % 2 == 1
    width = rnd.choice([8, 12, 16])
    case = {"kind": "WideFifo", "depth": depth, "read_width": rw, "write_width": ww, "write_max_count": mc, "shape": width}

    def make(r):
        return WideFifo(width, depth, rw, ww, write_max_count=mc), WideM(width, depth, rw, ww, mc)

    return case, make, ""


CHECK = ComponentCheck("C15", pick, tiers={"quick": (64, 400)}, embedded=(("WideFifo",), ("wide_measurer", "fifo_measurer")), suite=(("WideFifo",), ("test/lib/test_fifo.py", "test/lib/test_metrics.py")))
shards, run_shard = CHECK.shards, CHECK.run_shard
RULE = ("[in 30% of the histories every provided exclusive method has a second, competing caller transaction: a request is issued by the main caller, the rival or both; condition exclusive_method_serves_at_most_one_caller_per_cycle] [plus a second workload: WideFifo instances embedded in the FIFO latency measurers, watched passively (vf/passive.py) against the same reference model: readiness, results and state registers every cycle, conditions embedded:*] histories = hostile random read(count)/peek/write(count[,max_count])/clear sequences over all read_width x write_width in 1..4, "
        "depth a multiple of max(rw,ww) up to 16, both write_max_count settings, with stimulus modes full-width reads, exact-fit writes, "
        "max-width writes; non-trivial distinct case = (config, tag set among read+write / clamped read / exact-fit write / clear+write, level)")
ASSUMPTIONS = ["array slots beyond the returned count are unspecified and not compared", "count <= max_count respected by the stimulus (asserted by the component itself)"]
MINIMA = {"quick": {"embedded_WideFifo_cycles": 2000, "cycles": 8000, "calls:read": 1500, "calls:write": 1000, "distinct": 40, "cond:result:read": 1500},
          "thorough": {"cycles": 500000, "distinct": 200}}
