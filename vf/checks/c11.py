"""C11 - ill-formed designs are rejected, well-formed ones accepted."""

from ..gen.checks import GenCheck, COMMON_ASSUMPTIONS

ENGINE = "dgen+refsem"
TECHNIQUE = "runtime monitoring: random well-formed designs emitted as real Transactron objects, simulated under hostile input valuations; per-cycle oracle = independent reference semantics over sampled run/data/witness signals"
CHECK = GenCheck("C11", ("C11:",), {}, scheds=("eager",), nontrivial_counter="", quick=(780, 0), thorough=(60000, 0), mode="c11")
shards, run_shard = CHECK.shards, CHECK.run_shard
ASSUMPTIONS = COMMON_ASSUMPTIONS
RULE = ("random designs as generated (valid or not: the reference predicts double calls on non-exclusive paths, call cycles, cyclic priorities, ready-dependency on a conflicting transaction), their repaired well-formed versions, and single invalidating mutations of those (direct double call, double call under a parallel If, through an alias, self-call, call cycle, two-way priority, single_caller reached from two transactions directly and through an intermediate method, ready-dependent schedule_before onto a conflicting transaction); oracle: elaboration raises iff the reference says ill-formed; distinct = (mutation kind, rejection class)")
MINIMA = {"quick": {"elaborations": 2000, "cond:C11:ill_formed_design_raises:double": 300, "cond:C11:ill_formed_design_raises:selfcall": 60, "cond:C11:ill_formed_design_raises:prio": 150, "cond:C11:ill_formed_design_raises:single_caller": 20, "cond:C11:ill_formed_design_raises:deadlock": 50, "cond:C11:well_formed_design_elaborates": 500, "distinct": 9}, "thorough": {"elaborations": 150000}}
EVALUATIONS = "elaborations"
