"""C23 - multiport memories are equivalent to an ideal synchronous memory."""

from __future__ import annotations

import random
import traceback

from amaranth import Module
from amaranth.sim import Simulator
import amaranth.lib.memory as amem
from transactron.utils.amaranth_ext.memory import MultiReadMemory, MultiportXORMemory, MultiportXORILVTMemory, MultiportOneHotILVTMemory

ENGINE = "compmon"
TECHNIQUE = "runtime monitoring: differential monitor - every read port of the real memory compared each cycle with amaranth.lib.memory.Memory driven by the same port history"

CLASSES = {"MultiRead": MultiReadMemory, "XOR": MultiportXORMemory, "XORILVT": MultiportXORILVTMemory, "OneHotILVT": MultiportOneHotILVTMemory}
KLASS_GRAN = "ilvt:write_granularity_partial_write"


def pick(rnd, i):
    name = list(CLASSES)[i % 4]
    width = rnd.choice([1, 2, 3, 4, 8, 8])
    depth = rnd.choice([2, 4, 5, 8, 16])
    rp = rnd.randint(1, 3)
    wp = 1 if name == "MultiRead" else rnd.randint(1, 3)
    init_kind = rnd.choice(["none", "full", "partial"])
    gran = None
    if name != "XOR" and width in (4, 8) and rnd.random() < 0.35:
        gran = rnd.choice([g for g in (1, 2, 4) if width % g == 0 and g < width])
    # array-shaped rows (a fifth of the configurations): the granularity then counts ELEMENTS, as in amaranth.lib.memory
    array = None
    if rnd.random() < 0.2:
        array = (rnd.choice([1, 2, 4]), rnd.choice([2, 4]))
        width = array[0] * array[1]
        init_kind = "none"  # (initial contents of array rows are given per element; the multiport memories take flattened rows: not compared)
        gran = None
        if name != "XOR" and rnd.random() < 0.6:
            gran = rnd.choice([1, 2] if array[1] == 4 else [1])
    return {"cls": name, "width": width, "depth": depth, "read_ports": rp, "write_ports": wp, "init": init_kind, "granularity": gran, "array_row(element_width,count)": array}


def run_config(rec, rnd, cfg, cycles):
    cls = CLASSES[cfg["cls"]]
    width, depth, rp, wp, gran = cfg["width"], cfg["depth"], cfg["read_ports"], cfg["write_ports"], cfg["granularity"]
    init = [] if cfg["init"] == "none" else [rnd.getrandbits(width) for _ in range(depth if cfg["init"] == "full" else max(1, depth // 2))]
    subsets = [[j for j in range(wp) if rnd.random() < rnd.choice([0, 0.5, 1])] for _ in range(rp)]
    case = dict(cfg, init_values=init, transparent_for=subsets)
    klass = KLASS_GRAN if gran is not None and cfg["cls"] in ("XORILVT", "OneHotILVT") else ""
    try:
        m = Module()
        array = cfg.get("array_row(element_width,count)")
        if array:
            from amaranth.lib.data import ArrayLayout
            shape = ArrayLayout(array[0], array[1])
            rows = [[(v >> (k * array[0])) & ((1 << array[0]) - 1) for k in range(array[1])] for v in init]
            dut = cls(shape=shape, depth=depth, init=rows)
            ref = amem.Memory(shape=shape, depth=depth, init=rows)
            rec.count("configurations_with_array_rows")
        else:
            dut = cls(shape=width, depth=depth, init=init)
            ref = amem.Memory(shape=width, depth=depth, init=init)
        m.submodules.dut = dut
        m.submodules.ref = ref
        dw = [dut.write_port(granularity=gran) for _ in range(wp)]
        rw = [ref.write_port(granularity=gran) for _ in range(wp)]
        dr = [dut.read_port(transparent_for=[dw[j] for j in subsets[i]]) for i in range(rp)]
        rr = [ref.read_port(transparent_for=[rw[j] for j in subsets[i]]) for i in range(rp)]
        if any(len(a.en) != len(b.en) for a, b in zip(dw, rw)):
            rec.check("write_enable_has_the_width_of_the_ideal_memory_port", False, klass=klass, case=case,
                      detail={"dut_en_width": [len(a.en) for a in dw], "ideal_en_width": [len(b.en) for b in rw]})
            return
        sim = Simulator(m)
        sim.add_clock(1e-6)
    except Exception:
        rec.check("constructor_accepts_configuration", False, klass=klass, case=case, detail=traceback.format_exc()[-1200:])
        return
    rec.check("constructor_accepts_configuration", True)
    pen = [rnd.choice([0.2, 0.8, 1.0]) for _ in range(rp)]
    pw = rnd.choice([0.3, 0.7, 0.95])
    hist = []
    last_w: dict[int, int] = {}

    async def tb(ctx):
        first_read = set()
        for cyc in range(cycles):
            addrs = rnd.sample(range(depth), min(wp, depth))
            ws = []
            for i in range(wp):
                en = rnd.getrandbits(len(dw[i].en)) if i < len(addrs) and rnd.random() < pw else 0
                if gran is None and en:
                    en = 1
                a = addrs[i] if i < len(addrs) else 0
                d = rnd.getrandbits(width)
                for p in (dw[i], rw[i]):
                    ctx.set(p.en, en)
                    ctx.set(p.addr, a)
                    ctx.set(p.data.as_value() if hasattr(p.data, "as_value") else p.data, d)
                ws.append((en, a, d))
            rs = []
            for i in range(rp):
                if cyc % 60 > 50 and i == 0:
                    en = False  # long disabled stretch, then re-enabled
                else:
                    en = rnd.random() < pen[i]
                r = rnd.random()
                a = rnd.choice(addrs) if r < 0.4 else (rnd.choice(list(last_w)) if last_w and r < 0.7 else rnd.randrange(depth))
                for p in (dr[i], rr[i]):
                    ctx.set(p.en, en)
                    ctx.set(p.addr, a)
                rs.append((int(en), a))
                if en:
                    for (wen, wa, _), j in zip(ws, range(wp)):
                        if wen and wa == a:
                            rec.count("read_of_row_written_same_cycle" + ("_transparent" if j in subsets[i] else ""))
                    if last_w.get(a) == cyc - 1:
                        rec.count("read_of_row_written_previous_cycle")
                    if a < len(init) and a not in first_read and a not in last_w:
                        first_read.add(a)
                        rec.count("first_read_of_initialised_row")
            await ctx.tick()
            for en, a, _ in ws:
                if en:
                    last_w[a] = cyc
            got = [int(ctx.get(dr[i].data.as_value() if hasattr(dr[i].data, "as_value") else dr[i].data)) for i in range(rp)]
            exp = [int(ctx.get(rr[i].data.as_value() if hasattr(rr[i].data, "as_value") else rr[i].data)) for i in range(rp)]
            hist.append({"cycle": cyc, "writes(en,addr,data)": ws, "reads(en,addr)": rs, "dut": got, "ideal": exp})
            del hist[:-8]
            for i in range(rp):
                if not rec.check("read_data_equals_ideal_memory", got[i] == exp[i], klass=klass, case=case, detail={"port": i, "last_cycles": list(hist)}):
                    return
            rec.count("cycles")

    sim.add_testbench(tb)
    try:
        sim.run()
    except Exception:
        if not rec.viol_total:
            rec.check("simulates", False, klass=klass, case=case, detail=traceback.format_exc()[-1200:])
    tr = "none" if not any(subsets) else "all" if all(len(s) == wp for s in subsets) else "subset"
    rec.nontrivial(f"{cfg['cls']}|w{width}{'<' if width < (depth - 1).bit_length() else '>='}addr|rp{rp}wp{wp}|init={cfg['init']}|tr={tr}|g={gran}")
    if len(rec.samples) < 2:
        rec.sample(case)


def shards(tier, seed):
    n = 96 if tier == "quick" else 4000
    per = 3 if tier == "quick" else 25
    return [{"seed": seed, "first": i, "n": per, "cycles": 250 if tier == "quick" else 600} for i in range(0, n, per)]


def run_shard(spec, rec):
    for i in range(spec["first"], spec["first"] + spec["n"]):
        rnd = random.Random(f"C23:{spec['seed']}:{i}")
        cfg = pick(rnd, i)
        rec.count("configs:" + cfg["cls"])
        run_config(rec, rnd, cfg, spec["cycles"])


RULE = ("random configurations: class in {MultiRead, XOR, XORILVT, OneHotILVT} x width {1,2,3,4,8} (so data narrower than the address occurs) x depth "
        "{2,4,5,8,16} x 1-3 read ports x 1-3 write ports (1 for MultiRead) x init {none, full, partial} x per-read-port transparency subsets x "
        "granularity where accepted; port histories with random enables (incl. long read-disabled stretches), reads aimed at rows written in the same "
        "and the previous cycle, writes never colliding on a row; distinct non-trivial case = (class, narrow/wide data, port counts, init kind, "
        "transparency kind, granularity)")
ASSUMPTIONS = ["amaranth.lib.memory.Memory in pysim is the ideal reference", "no two write ports address the same row in one cycle (stimulus guarantees it)"]
MINIMA = {"quick": {"cycles": 10000, "read_of_row_written_same_cycle_transparent": 300, "read_of_row_written_previous_cycle": 500,
                    "first_read_of_initialised_row": 100, "distinct": 40},
          "thorough": {"cycles": 1000000, "distinct": 150}}
