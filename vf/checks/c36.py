"""C36 - bit-manipulation helpers compute their documented functions."""

from __future__ import annotations

import functools
import operator
import random

from amaranth import Module, Signal, C
from transactron.utils.amaranth_ext.functions import (
    popcount, count_leading_zeros, count_trailing_zeros, cyclic_mask, extract_lowest_set_bit, clear_lowest_set_bit,
    mask_from_first_set_bit, mask_after_first_set_bit, mask_until_first_set_bit, mask_before_first_set_bit,
    mod_incr, mod_add, sum_value, or_value, and_value, min_value, max_value, mux, switch_value,
)

from ..comb.engine import comb_check as _comb_check, allv, stratified

_PART = [0, 1, 0]  # (part, number of parts, running instance index): a shard checks the instances whose index is congruent to its part


def comb_check(rec, name, build, vectors, ref, **kw):
    _PART[2] += 1
    if _PART[2] % _PART[1] != _PART[0]:
        return
    _comb_check(rec, name, build, vectors, ref, **kw)

ENGINE = "combmon"
EVALUATIONS = "evaluations"
TECHNIQUE = "runtime monitoring: combinational outputs of the real helpers compared with Python definitions, exhaustive for widths <= 8"


def bits_ref(w):
    def ref(v):
        m = (1 << w) - 1
        tz = w if v == 0 else (v & -v).bit_length() - 1
        lz = w if v == 0 else w - v.bit_length()
        mf = (v | -v) & m
        return [bin(v).count("1"), tz, lz, v & -v, v & (v - 1), mf, (mf << 1) & m, ~(mf << 1) & m, ~mf & m]
    return ref


def build_bits(w):
    def build():
        x = Signal(w)
        m = Module()
        cw = max(1, w.bit_length())
        fns = [popcount, count_trailing_zeros, count_leading_zeros]
        outs = []
        for f in fns:
            s = Signal(cw + 1)
            m.d.comb += s.eq(f(x))
            outs.append(s)
        for f in [extract_lowest_set_bit, clear_lowest_set_bit, mask_from_first_set_bit, mask_after_first_set_bit,
                  mask_until_first_set_bit, mask_before_first_set_bit]:
            s = Signal(w)
            m.d.comb += s.eq(f(x))
            outs.append(s)
        return m, [x], outs
    return build


def fam_bits(rec, tier, rnd):
    for w in range(1, 9 if tier == "quick" else 15):
        comb_check(rec, f"bits/w{w}", build_bits(w), allv(w), bits_ref(w), family="bit_helpers", exhaustive=True)
    wide = list(range(15, 66)) if tier == "thorough" else [13, 16, 31, 32, 33, 64]
    for w in wide:
        vec = [(v,) for v in stratified(rnd, w, 300 if tier == "quick" else 2000)]
        comb_check(rec, f"bits/w{w}", build_bits(w), vec, bits_ref(w), family="bit_helpers")


def fam_mod(rec, tier, rnd):
    maxmod = 17 if tier == "quick" else 70
    for mod in range(1, maxmod + 1):
        def build(mod=mod):
            x = Signal(range(mod) if mod > 1 else 1)
            m = Module()
            o = Signal(10)
            m.d.comb += o.eq(mod_incr(x, mod))
            return m, [x], [o]
        comb_check(rec, f"mod_incr/{mod}", build, [(v,) for v in range(mod)], lambda v, mod=mod: [(v + 1) % mod], family="mod_incr", exhaustive=True)
        for mi in range(0, 5 if tier == "quick" else 13):
            def build2(mod=mod, mi=mi):
                x = Signal(range(mod) if mod > 1 else 1)
                inc = Signal(range(mi + 1) if mi > 0 else 1)
                m = Module()
                o = Signal(10)
                m.d.comb += o.eq(mod_add(x, mod, inc, mi))
                return m, [x, inc], [o]
            comb_check(rec, f"mod_add/{mod}/{mi}", build2, [(v, i) for v in range(mod) for i in range(mi + 1)],
                       lambda v, i, mod=mod: [(v + i) % mod], family="mod_add", exhaustive=True,
                       klass_of=lambda v, mod=mod, mi=mi: "mod_add:max_incr>mod" if mi > mod else "")


def fam_cyclic(rec, tier, rnd):
    for bits in range(1, 9 if tier == "quick" else 33):
        def build(bits=bits):
            aw = max(1, (bits - 1).bit_length())
            st, en = Signal(aw), Signal(aw)
            m = Module()
            o = Signal(bits)
            m.d.comb += o.eq(cyclic_mask(bits, st, en))
            return m, [st, en], [o]

        def ref(s, e, bits=bits):
            if s <= e:
                return [sum(1 << i for i in range(s, e + 1))]
            return [sum(1 << i for i in range(bits) if i >= s or i <= e)]
        comb_check(rec, f"cyclic_mask/{bits}", build, [(s, e) for s in range(bits) for e in range(bits)], ref, family="cyclic_mask", exhaustive=True)


def fam_reduce(rec, tier, rnd):
    for n in range(1, 5):
        for w in ([2, 3] if tier == "quick" else [1, 2, 3, 4, 5]):
            if n * w > (12 if tier == "quick" else 15):
                continue
            def build(n=n, w=w):
                xs = [Signal(w, name=f"x{i}") for i in range(n)]
                m = Module()
                outs = [Signal(10, name=f"r{i}") for i in range(5)]
                m.d.comb += [outs[0].eq(sum_value(*xs)), outs[1].eq(or_value(*xs)), outs[2].eq(and_value(*xs)),
                             outs[3].eq(min_value(*xs)), outs[4].eq(max_value(*xs))]
                return m, xs, outs
            comb_check(rec, f"reduce/n{n}w{w}", build, allv(*[w] * n),
                       lambda *v: [sum(v), functools.reduce(operator.or_, v), functools.reduce(operator.and_, v), min(v), max(v)],
                       family="reductions", exhaustive=True)
    # mixed widths
    for k in range(6 if tier == "quick" else 200):
        ws = [rnd.randint(1, 7) for _ in range(rnd.randint(2, 5))]
        def build(ws=ws):
            xs = [Signal(w, name=f"x{i}") for i, w in enumerate(ws)]
            m = Module()
            outs = [Signal(12, name=f"r{i}") for i in range(5)]
            m.d.comb += [outs[0].eq(sum_value(*xs)), outs[1].eq(or_value(*xs)), outs[2].eq(and_value(*xs)),
                         outs[3].eq(min_value(*xs)), outs[4].eq(max_value(*xs))]
            return m, xs, outs
        vec = [tuple(rnd.getrandbits(w) for w in ws) for _ in range(200)] + [tuple((1 << w) - 1 for w in ws), tuple(0 for _ in ws)]
        comb_check(rec, f"reduce/mixed{ws}", build, vec,
                   lambda *v: [sum(v), functools.reduce(operator.or_, v), functools.reduce(operator.and_, v), min(v), max(v)], family="reductions")


def fam_mux(rec, tier, rnd):
    for w in [1, 3, 5]:
        def build(w=w):
            sel, a, b = Signal(2), Signal(w), Signal(w)
            m = Module()
            o = Signal(w)
            m.d.comb += o.eq(mux(sel, a, b))
            return m, [sel, a, b], [o]
        comb_check(rec, f"mux/w{w}", build, allv(2, w, w), lambda s, a, b: [a if s else b], family="mux", exhaustive=True)
    # switch_value: integer keys, tuple keys, default, first match wins
    for k in range(8 if tier == "quick" else 400):
        tw = rnd.randint(1, 4 if tier == "quick" else 6)
        keys = list(range(1 << tw))
        rnd.shuffle(keys)
        ncase = rnd.randint(1, min(5, len(keys)))
        cases, used = [], 0
        for c in range(ncase):
            take = rnd.randint(1, 2)
            ks = tuple(keys[used:used + take]) or (keys[0],)
            used += take
            cases.append((ks if len(ks) > 1 or rnd.random() < 0.5 else ks[0], rnd.getrandbits(4)))
        if rnd.random() < 0.3 and cases:
            cases.append((cases[0][0], rnd.getrandbits(4)))  # duplicate key: first match wins
        has_default = rnd.random() < 0.7
        dflt = rnd.getrandbits(4)
        def build(tw=tw, cases=cases, has_default=has_default, dflt=dflt, k=k):
            t = Signal(tw)
            m = Module()
            o = Signal(4)
            cs = [(kk, C(v, 4)) for kk, v in cases] + ([(None, C(dflt, 4))] if has_default else [])
            # the signature takes any Iterable: every third table is a one-shot generator, every third an iterator (seeded defect C36c)
            form = k % 3
            arg = cs if form == 0 else (c for c in cs) if form == 1 else iter(tuple(cs))
            m.d.comb += o.eq(switch_value(t, arg))
            return m, [t], [o]

        def ref(t, cases=cases, has_default=has_default, dflt=dflt):
            for kk, v in cases:
                if t == kk or (isinstance(kk, tuple) and t in kk):
                    return [v]
            return [dflt if has_default else 0]
        comb_check(rec, f"switch_value/{k}:{cases}", build, allv(tw), ref, family="switch_value", exhaustive=True)


FAMILIES = {"bits": fam_bits, "mod": fam_mod, "cyclic": fam_cyclic, "reduce": fam_reduce, "mux": fam_mux}


def shards(tier, seed):
    parts = 1 if tier == "quick" else 12
    return [{"family": f, "tier": tier, "seed": seed, "part": p, "parts": parts} for f in FAMILIES for p in range(parts)]


def run_shard(spec, rec):
    _PART[:] = [spec.get("part", 0), spec.get("parts", 1), -1]
    # the same generator stream in every part of a family, so that the parts partition one instance list
    FAMILIES[spec["family"]](rec, spec["tier"], random.Random(f"C36:{spec['seed']}:{spec['family']}"))
    if len(rec.samples) < 1:
        rec.sample({"family": spec["family"], "instances": sorted(rec.distinct)[:6]})


def exhaustive(merged, tier):
    return False


RULE = ("every helper instantiated for widths 1..8 (1..14 thorough) with ALL input values, moduli 1..17 (1..70) x max_incr 0..4 (0..12) with all "
        "(value, incr) pairs, cyclic_mask for all (start,end) up to 8 (32) bits, reductions over 1-4 operands exhaustively, mux/switch_value with integer, tuple, "
        "duplicate and default keys; widths 13..64 (every width 15..65 thorough) with stratified random + corner inputs; a distinct non-trivial case = one function instance "
        "(function family, width/modulus/operand configuration); exhaustive for the instances counted in exhaustive_instances")
ASSUMPTIONS = ["results are truncated to the documented result width before comparison", "pysim evaluates the combinational expression"]
MINIMA = {"quick": {"evaluations": 8000, "instances": 100, "cond:mod_add": 1000, "cond:bit_helpers": 3000, "cond:switch_value": 30},
          "thorough": {"evaluations": 200000, "instances": 400}}
