"""C08 - conflict priorities are respected."""

from ..gen.checks import GenCheck, COMMON_ASSUMPTIONS

ENGINE = "dgen+refsem"
TECHNIQUE = "runtime monitoring: random well-formed designs emitted as real Transactron objects, simulated under hostile input valuations; per-cycle oracle = independent reference semantics over sampled run/data/witness signals"
CHECK = GenCheck("C08", ("C08:",), {"max_conflicts": 4, "max_sb": 3, "p_triangle": 0.6, "p_double_conflict": 0.5, "p_lifted_priority": 0.5}, scheds=("eager",), nontrivial_counter="prioritised_pairs_both_enabled_cycles")
shards, run_shard = CHECK.shards, CHECK.run_shard
ASSUMPTIONS = COMMON_ASSUMPTIONS
RULE = ("[forced layout classes: priority triangle; double conflict (a pair conflicting implicitly through a shared exclusive method AND by a prioritised add_conflict whose priority disagrees with the definition order, plus a third transaction attached to the component only by schedule_before); second clause: for every schedule_before pair without a conflict, a fully enabled side that stays idle has a running conflicting transaction] random well-formed designs with up to 4 conflicts (LEFT/RIGHT/UNDEFINED, between transactions or lifted from methods) combined with implicit conflicts and schedule_before chains; oracle: when both sides of a prioritised conflict are fully enabled, the lower side runs only if the higher side does not run and some other transaction conflicting with the higher side runs; non-trivial design = some cycle with both sides enabled; distinct = design shape signature")
MINIMA = {"quick": {"schedule_before_pairs_both_enabled_cycles": 300, "cycles": 8000, "prioritised_pairs_both_enabled_cycles": 150, "distinct": 8}, "thorough": {"cycles": 1000000, "distinct": 200}}
