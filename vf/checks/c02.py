"""C02 - explicitly conflicting transactions and methods never run together."""

from ..gen.checks import GenCheck, COMMON_ASSUMPTIONS

ENGINE = "dgen+refsem"
TECHNIQUE = "runtime monitoring: random well-formed designs emitted as real Transactron objects, simulated under hostile input valuations; per-cycle oracle = independent reference semantics over sampled run/data/witness signals"
CHECK = GenCheck("C02", ("C02:",), {"max_conflicts": 4, "p_lifted_priority": 0.3, "p_xmod_conflict": 0.5, "p_same_trans_conflict": 0.4, "p_case_after_if": 0.4}, scheds=("eager", "rr"), library=True, suite=True, nontrivial_counter="conflict_pairs_both_sides_enabled_cycles")


# --- contradiction shards (seeded defect C02f): add_conflict declared between two bodies that are ALSO declared simultaneous() -------------------
# The only outcomes compatible with C02 are "rejected at elaboration" or "accepted and the two ends never run in one cycle".
import itertools
import random

# flip_sim None = control design without the simultaneous() declaration (accepted: exercises the simulated branch of the oracle on a correct tree)
SIMCONF_CONFIGS = list(itertools.product(("trans", "methods"), ("UNDEFINED", "LEFT", "RIGHT"), (False, True), (False, True, None)))


def run_simconf(spec, rec):
    from amaranth import Elaboratable, Signal
    from amaranth.sim import Simulator
    from transactron import TModule, Method, Transaction, def_method
    from transactron.core import TransactronContextElaboratable, Priority

    for i in range(spec["first"], spec["first"] + spec["n"]):
        where, prio, flip_conf, flip_sim = SIMCONF_CONFIGS[i % len(SIMCONF_CONFIGS)]
        rnd = random.Random(f"C02:simconf:{spec['seed']}:{i}")
        case = {"simconf": i, "conflict_on": where, "priority": prio, "conflict_declared_from_second": flip_conf, "simultaneous_declared_from_second": flip_sim}

        class Top(Elaboratable):
            def __init__(self):
                self.ma, self.mb = Method(), Method()
                self.ra, self.rb = Signal(), Signal()
                self.ma_run, self.mb_run, self.ta_run, self.tb_run = Signal(), Signal(), Signal(), Signal()

            def elaborate(self, platform):
                m = TModule()

                @def_method(m, self.ma)
                def _():
                    m.d.comb += self.ma_run.eq(1)

                @def_method(m, self.mb)
                def _():
                    m.d.comb += self.mb_run.eq(1)

                ta, tb_ = Transaction(name="ta"), Transaction(name="tb")
                with ta.body(m, ready=self.ra):
                    m.d.comb += self.ta_run.eq(1)
                    self.ma(m)
                with tb_.body(m, ready=self.rb):
                    m.d.comb += self.tb_run.eq(1)
                    self.mb(m)
                x, y = (ta, tb_) if where == "trans" else (self.ma, self.mb)
                if flip_conf:
                    x, y = y, x
                x.add_conflict(y, Priority[prio])
                if flip_sim is not None:
                    s1, s2 = (tb_, ta) if flip_sim else (ta, tb_)
                    s1.simultaneous(s2)
                keep = Signal()
                m.d.sync += keep.eq(~keep)
                return m

        top = Top()
        try:
            sim = Simulator(TransactronContextElaboratable(top))
        except Exception as ex:  # rejected at elaboration: compatible with the property
            rec.count("simconf_designs_rejected_at_elaboration")
            rec.state(f"simconf:rejected:{type(ex).__name__}")
            rec.check("C02:conflict_between_simultaneous_bodies_rejected_or_never_together", True, case=case)
            continue
        sim.add_clock(1e-6)
        rec.count("simconf_designs_accepted" if flip_sim is not None else "simconf_control_designs_simulated")
        hist = []

        async def tb(ctx):
            for cyc in range(spec["cycles"]):
                a, b = (1, 1) if rnd.random() < 0.5 else (rnd.getrandbits(1), rnd.getrandbits(1))
                ctx.set(top.ra, a)
                ctx.set(top.rb, b)
                await ctx.delay(1e-9)
                runs = {k: ctx.get(getattr(top, k)) for k in ("ta_run", "tb_run", "ma_run", "mb_run")}
                hist.append((a, b, runs))
                del hist[:-6]
                both = (runs["ta_run"] and runs["tb_run"]) if where == "trans" else (runs["ma_run"] and runs["mb_run"])
                rec.check("C02:conflict_between_simultaneous_bodies_rejected_or_never_together", not both, case=case,
                          detail={"last_cycles(ready_a,ready_b,runs)": hist[-4:]})
                rec.count("simconf_cycles")
                if rec.viol_total:
                    return
                await ctx.tick()

        sim.add_testbench(tb)
        sim.run()


def shards(tier, seed):
    n = 2 if tier == "quick" else 12
    return CHECK.shards(tier, seed) + [{"seed": seed, "simconf": True, "first": i * 18, "n": 18, "cycles": 40 if tier == "quick" else 200} for i in range(n)]


def run_shard(spec, rec):
    if spec.get("simconf"):
        return run_simconf(spec, rec)
    return CHECK.run_shard(spec, rec)
ASSUMPTIONS = COMMON_ASSUMPTIONS
RULE = ("[plus contradiction shards: add_conflict of every priority and orientation declared on two transactions (or on the methods they call) that are also declared simultaneous(); oracle: rejected at elaboration, or accepted and the two ends never run in one cycle] [plus the repository's own tests run with the transaction sanitizer attached to every simulator they create - two files in the quick tier, the whole suite in the thorough tier; test outcomes are not verdicts] [plus a realistic second workload: library components (FIFOs, stack, connectors, memories, CAM, allocators, metrics) under the hostile component driver with the design-independent transaction sanitizer vf/txsan.py attached] random well-formed designs with 0-4 add_conflict relations of every priority between transactions, methods and mixed pairs (ends reached directly, through nested calls and aliases; ends in different alternatives of one structure; first body of a module under its first If and a later body in a Case of a later module-level Switch; conflicts with uncalled methods), both schedulers; oracle: both ends never run in one cycle; non-trivial design = some cycle in which transactions reaching both ends were fully enabled; distinct = (design shape signature, scheduler)")
MINIMA = {"quick": {"cycles": 8000, "cond:C02:add_conflict_ends_never_run_together": 5000, "conflict_pairs_both_sides_enabled_cycles": 300, "distinct": 15}, "thorough": {"cycles": 1000000, "distinct": 400}}
