"""C02 - explicitly conflicting transactions and methods never run together."""

from ..gen.checks import GenCheck, COMMON_ASSUMPTIONS

ENGINE = "dgen+refsem"
TECHNIQUE = "runtime monitoring: random well-formed designs emitted as real Transactron objects, simulated under hostile input valuations; per-cycle oracle = independent reference semantics over sampled run/data/witness signals"
CHECK = GenCheck("C02", ("C02:",), {"max_conflicts": 4, "p_lifted_priority": 0.3, "p_xmod_conflict": 0.5, "p_same_trans_conflict": 0.4, "p_case_after_if": 0.4}, scheds=("eager", "rr"), library=True, suite=True, nontrivial_counter="conflict_pairs_both_sides_enabled_cycles")
shards, run_shard = CHECK.shards, CHECK.run_shard
ASSUMPTIONS = COMMON_ASSUMPTIONS
RULE = ("[plus the repository's own tests run with the transaction sanitizer attached to every simulator they create - two files in the quick tier, the whole suite in the thorough tier; test outcomes are not verdicts] [plus a realistic second workload: library components (FIFOs, stack, connectors, memories, CAM, allocators, metrics) under the hostile component driver with the design-independent transaction sanitizer vf/txsan.py attached] random well-formed designs with 0-4 add_conflict relations of every priority between transactions, methods and mixed pairs (ends reached directly, through nested calls and aliases; ends in different alternatives of one structure; first body of a module under its first If and a later body in a Case of a later module-level Switch; conflicts with uncalled methods), both schedulers; oracle: both ends never run in one cycle; non-trivial design = some cycle in which transactions reaching both ends were fully enabled; distinct = (design shape signature, scheduler)")
MINIMA = {"quick": {"cycles": 8000, "cond:C02:add_conflict_ends_never_run_together": 5000, "conflict_pairs_both_sides_enabled_cycles": 300, "distinct": 15}, "thorough": {"cycles": 1000000, "distinct": 400}}
