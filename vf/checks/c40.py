"""C40 - structured assignment copies exactly the selected fields."""

from __future__ import annotations

import random

from amaranth import Module, Signal, Shape, signed, unsigned
from amaranth.lib import data
from amaranth.sim import Simulator
from transactron.utils.assign import assign, AssignType

ENGINE = "pymon"
EVALUATIONS = "cases"
TECHNIQUE = "runtime monitoring: differential oracle on assign() - reference decides must-raise/must-assign, effect of the returned statements observed in simulation against a random background"

# spec tree: ("leaf", width, signed) | ("struct", {name: spec}) | ("array", spec, n)


def rnd_layout(rnd, depth=0, top=True):
    r = rnd.random()
    if not top and (depth >= 3 or r < 0.4):
        return ("leaf", rnd.randint(1, 6), rnd.random() < 0.15)
    if r < 0.8 or top and r < 0.9:
        return ("struct", {f"f{i}": rnd_layout(rnd, depth + 1, False) for i in rnd.sample(range(5), rnd.randint(1, 3))})
    return ("array", rnd_layout(rnd, depth + 1, False), rnd.randint(1, 3))


def to_shape(sp):
    if sp[0] == "leaf":
        return signed(sp[1]) if sp[2] else unsigned(sp[1])
    if sp[0] == "struct":
        return data.StructLayout({k: to_shape(v) for k, v in sp[1].items()})
    return data.ArrayLayout(to_shape(sp[1]), sp[2])


def leaves(sp, pre=()):
    if sp[0] == "leaf":
        yield pre, sp
    elif sp[0] == "struct":
        for k, v in sp[1].items():
            yield from leaves(v, pre + (k,))
    else:
        for i in range(sp[2]):
            yield from leaves(sp[1], pre + (i,))


def mutate(rnd, sp):
    """A related layout: fields dropped/added, widths/lengths/signedness occasionally changed."""
    if sp[0] == "leaf":
        r = rnd.random()
        if r < 0.85:
            return sp
        if r < 0.95:
            return ("leaf", sp[1] + 1, sp[2])
        return ("leaf", sp[1], not sp[2])
    if sp[0] == "array":
        return ("array", mutate(rnd, sp[1]), sp[2] if rnd.random() < 0.85 else sp[2] + rnd.choice([-1, 1]) or 1)
    d = {k: mutate(rnd, v) for k, v in sp[1].items() if rnd.random() < 0.85}
    if rnd.random() < 0.3:
        d[f"g{rnd.randrange(3)}"] = rnd_layout(rnd, 2, False)
    return ("struct", d) if d else ("struct", {"z": ("leaf", 1, False)})


def children(sp):
    if sp[0] == "struct":
        return dict(sp[1])
    if sp[0] == "array":
        return {i: sp[1] for i in range(sp[2])}
    return None


reasons: list[str] = []
KLASS_SIGNED = "assign:signed_view_field_in_dict_not_shape_checked"


def selected(lsp, rsp, fields):
    """Reference: returns (verdict, selected leaf paths). verdict True = must assign, False = must raise, None = not predicted."""
    sel = []
    reasons.clear()

    def rec(l, r, f, path):
        lc, rc = children(l), children(r)
        if lc is None and rc is None:
            if isinstance(f, AssignType):
                ok = l[1] == r[1] and l[2] == r[2]
                if ok:
                    sel.append(path)
                else:
                    reasons.append("leaf_mismatch_rhs_signed" if r[2] else "leaf_mismatch")
                return ok
            reasons.append("fields_on_leaf")
            return False  # field selection on non-structures
        if lc is None or rc is None:
            return None  # structure against plain value: single-field unwrapping rules, not predicted
        lf, rf = set(lc), set(rc)
        if f is AssignType.COMMON:
            names = lf & rf
        elif f is AssignType.LHS:
            names = lf
        elif f is AssignType.RHS:
            names = rf
        elif f is AssignType.ALL:
            names = lf | rf
        else:
            names = set(f)
        if not names and (lf or rf):
            reasons.append("no_fields")
            return False
        if any(n not in lf or n not in rf for n in names):
            reasons.append("missing_field")
            return False
        res = True
        for n in sorted(names, key=str):
            sub = f[n] if isinstance(f, dict) else (f if isinstance(f, AssignType) else AssignType.ALL)
            v = rec(lc[n], rc[n], sub, path + (n,))
            if v is False:
                res = False
            elif v is None and res is True:
                res = None
        return res

    return rec(lsp, rsp, fields, ()), sel


def rnd_fields(rnd, lsp, rsp):
    """A field selection: an AssignType, an iterable of names, or a nested mapping."""
    r = rnd.random()
    if r < 0.6:
        return rnd.choice(list(AssignType))
    lc, rc = children(lsp), children(rsp)
    if lc is None or rc is None:
        return rnd.choice(list(AssignType))
    pool = sorted(set(lc) | set(rc), key=str) if rnd.random() < 0.3 else sorted(set(lc) & set(rc), key=str)
    if not pool:
        return rnd.choice(list(AssignType))
    names = rnd.sample(pool, rnd.randint(1, len(pool)))
    if r < 0.8:
        return list(names)
    out = {}
    for n in names:
        if n in lc and n in rc:
            out[n] = rnd_fields(rnd, lc[n], rc[n])
        else:
            out[n] = AssignType.ALL
    return out


def fields_repr(f):
    if isinstance(f, AssignType):
        return f.name
    if isinstance(f, dict):
        return {str(k): fields_repr(v) for k, v in f.items()}
    return [str(x) for x in f]


def bits_of(sp, val):
    out, off = {}, [0]

    def rec(s, pre):
        if s[0] == "leaf":
            out[pre] = (val >> off[0]) & ((1 << s[1]) - 1)
            off[0] += s[1]
        elif s[0] == "struct":
            for k, v in s[1].items():
                rec(v, pre + (k,))
        else:
            for i in range(s[2]):
                rec(s[1], pre + (i,))
    rec(sp, ())
    return out


def view_get(v, path):
    for k in path:
        v = v[k]
    return v


def as_dict(rnd, view, sp, ints, rv_bits, pre=()):
    """RHS as nested dict/list of fields of a view (explicit shapes) or, for leaves, optionally Python ints (no width check)."""
    if sp[0] == "leaf":
        if ints and not sp[2]:
            return rv_bits[pre]
        return view_get(view, pre)
    if sp[0] == "struct":
        return {k: as_dict(rnd, view, v, ints, rv_bits, pre + (k,)) for k, v in sp[1].items()}
    return [as_dict(rnd, view, sp[1], ints, rv_bits, pre + (i,)) for i in range(sp[2])]


def one_case(rec, rnd, idx):
    lsp = rnd_layout(rnd)
    rsp = mutate(rnd, lsp) if rnd.random() < 0.7 else lsp
    fields = rnd_fields(rnd, lsp, rsp)
    lsh, rsh = to_shape(lsp), to_shape(rsp)
    lw, rw = Shape.cast(lsh).width, Shape.cast(rsh).width
    lhs, rhs_view = Signal(lsh), Signal(rsh)
    rv = rnd.getrandbits(rw)
    rvb = bits_of(rsp, rv)
    flavor = rnd.choice(["view", "view", "dict", "dict_ints"])
    # with integer leaves the width check does not apply; restrict that flavour to same-width common leaves
    if flavor == "dict_ints":
        ll, rl = dict(leaves(lsp)), dict(leaves(rsp))
        if any(p in ll and (ll[p][1] != rl[p][1] or ll[p][2] or rl[p][2]) for p in rl):
            flavor = "dict"
    rhs = rhs_view if flavor == "view" else as_dict(rnd, rhs_view, rsp, flavor == "dict_ints", rvb)
    case = {"lhs": lsp, "rhs": rsp, "fields": fields_repr(fields), "rhs_flavor": flavor, "case": idx}
    pred, sel = selected(lsp, rsp, fields)
    try:
        stmts = list(assign(lhs, rhs, fields=fields))
        raised = None
    except Exception as ex:  # any exception counts as 'raises'; its type is reported
        raised = ex
    rec.count("cases")
    if raised is not None:
        rec.count("raised")
        rec.check("raises_only_when_required", pred is not True, case=case, detail={"exception": repr(raised)[:300]})
        if pred is False:
            rec.count("raised_as_predicted")
        rec.nontrivial(f"raise|{fields_repr(fields) if isinstance(fields, AssignType) else type(fields).__name__}|{flavor}|{lsp[0]}|{len(list(leaves(lsp)))}")
        return
    rec.count("assigned")
    why = sorted(set(reasons))
    klass = KLASS_SIGNED if flavor == "dict" and why == ["leaf_mismatch_rhs_signed"] else ""
    if not rec.check("missing_field_or_shape_mismatch_raises", pred is not False, case=case, klass=klass,
                     detail={"what": "assign returned statements although the reference requires an error", "reference_reasons": why}):
        return
    m = Module()
    bg = rnd.getrandbits(lw)
    m.d.comb += lhs.as_value().eq(bg)
    m.d.comb += stmts
    sim = Simulator(m)
    res = {}

    async def tb(ctx):
        ctx.set(rhs_view.as_value(), rv)
        res["l"] = ctx.get(lhs.as_value())

    sim.add_testbench(tb)
    sim.run()
    lgot, lbg = bits_of(lsp, res["l"]), bits_of(lsp, bg)
    ll = dict(leaves(lsp))
    if pred is True:
        selset = set(sel)
        for pth, leaf in ll.items():
            if pth in selset:
                rec.check("selected_leaf_equals_rhs", lgot[pth] == rvb[pth] & ((1 << leaf[1]) - 1), case=case,
                          detail={"leaf": pth, "observed": lgot[pth], "rhs": rvb[pth], "background": lbg[pth]})
            else:
                rec.check("nothing_else_assigned", lgot[pth] == lbg[pth], case=case, detail={"leaf": pth, "observed": lgot[pth], "background": lbg[pth]})
        rec.nontrivial(f"assign|{fields_repr(fields) if isinstance(fields, AssignType) else type(fields).__name__}|{flavor}|{lsp[0]}|sel{len(sel)}of{len(ll)}")
        rec.count("assigned_fully_predicted")
        if len(sel) < len(ll):
            rec.count("partial_selections")
    else:
        # not predicted (structure against plain value): still, a changed leaf must exist on the rhs with that value
        rl = dict(leaves(rsp))
        for pth in ll:
            if lgot[pth] != lbg[pth] and pth in rl:
                rec.check("changed_leaf_has_rhs_value", lgot[pth] == rvb[pth] & ((1 << ll[pth][1]) - 1), case=case, detail={"leaf": pth})
    if len(rec.samples) < 3:
        rec.sample(case)


def shards(tier, seed):
    n = 2400 if tier == "quick" else 800000
    per = 150 if tier == "quick" else 2500
    return [{"seed": seed, "first": i, "n": per} for i in range(0, n, per)]


def run_shard(spec, rec):
    for i in range(spec["first"], spec["first"] + spec["n"]):
        one_case(rec, random.Random(f"C40:{spec['seed']}:{i}"), i)


RULE = ("random nested struct/array layouts (depth <= 3, signed and unsigned leaves 1-6 bits) paired with a related layout (fields dropped/added, "
        "widths, lengths or signedness changed) or itself; rhs given as a View, as nested dict/list of view fields, or as dict/list with Python int "
        "leaves; field selection = each AssignType, an iterable of names, or a nested mapping; the reference decides must-raise / must-assign; for "
        "must-assign the returned statements are simulated over a random background value: selected leaves == rhs leaves, every other lhs bit == "
        "background; distinct non-trivial case = (outcome, selection kind, rhs flavour, top layout kind, selected/total leaves)")
ASSUMPTIONS = ["structure-against-plain-value pairs (single-field unwrapping) are not predicted and only weakly checked", "union layouts are not generated"]
MINIMA = {"quick": {"cases": 2000, "raised_as_predicted": 300, "assigned_fully_predicted": 400, "partial_selections": 50, "distinct": 40},
          "thorough": {"cases": 100000, "distinct": 100}}
