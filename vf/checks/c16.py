"""C16 - Stack behaves as a bounded LIFO."""

from transactron.lib import Stack

from ..comp.common import ComponentCheck
from ..comp.models import StackM, rand_payload

DEPTHS = [1, 2, 3, 4, 5, 6, 8, 13]


def pick(rnd, i):
    depth = DEPTHS[i % len(DEPTHS)]
    pay = rand_payload(rnd)
    case = {"kind": "Stack", "depth": depth, "layout": pay.layout}

    def make(r):
        return Stack(pay.layout, depth), StackM(depth, pay)

    return case, make, ""


CHECK = ComponentCheck("C16", pick, suite=(("Stack",), ("test/lib/test_stack.py",)))
shards, run_shard = CHECK.shards, CHECK.run_shard
RULE = ("[in 30% of the histories every provided exclusive method has a second, competing caller transaction: a request is issued by the main caller, the rival or both; condition exclusive_method_serves_at_most_one_caller_per_cycle] histories = hostile random read/peek/write/clear sequences on Stack of depth 1..13 (power of two or not) with unique payload ids and a drain "
        "phase; non-trivial distinct case = (depth, simultaneous read+write at full / level 1 / other, clear racing read/write, level)")
ASSUMPTIONS = ["pysim execution; readiness observed over the static callee tree"]
MINIMA = {"quick": {"cycles": 5000, "calls:read": 1000, "calls:write": 1000, "distinct": 15}, "thorough": {"cycles": 500000, "distinct": 40}}
