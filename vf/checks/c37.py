"""C37 - shifters and rotators are correct."""

from __future__ import annotations

import random

from amaranth import Module, Signal, C, Cat, Value
from amaranth.lib import data
from transactron.utils.amaranth_ext.shifter import (
    shift_left, shift_right, rotate_left, rotate_right, shift_vec_left, shift_vec_right, rotate_vec_left, rotate_vec_right,
)

from ..comb.engine import comb_check, allv, stratified

ENGINE = "combmon"
EVALUATIONS = "evaluations"
TECHNIQUE = "runtime monitoring: outputs of the real shifters compared with bit-list definitions, exhaustive in value x offset for widths <= 8"
KLASS = "shift_rotate:offset>width"


def bits(v, w):
    return [(v >> i) & 1 for i in range(w)]


def frombits(b):
    return sum(x << i for i, x in enumerate(b))


def ref_bits(w):
    def ref(v, off, ph):
        b = bits(v, w)
        sr = [b[i + off] if i + off < w else ph for i in range(w)]
        sl = [b[i - off] if i - off >= 0 else ph for i in range(w)]
        rr = [b[(i + off) % w] for i in range(w)]
        rl = [b[(i - off) % w] for i in range(w)]
        return [frombits(sr), frombits(sl), frombits(rr), frombits(rl)]
    return ref


def build_bits(w, ow):
    def build():
        v, off, ph = Signal(w), Signal(ow), Signal(1)
        m = Module()
        outs = []
        for f in (lambda: shift_right(v, off, ph), lambda: shift_left(v, off, ph), lambda: rotate_right(v, off), lambda: rotate_left(v, off)):
            s = Signal(w)
            m.d.comb += s.eq(f())
            outs.append(s)
        return m, [v, off, ph], outs
    return build


def bit_widths(tier):
    top = 8 if tier == "quick" else 10
    return list(range(1, top + 1)), ([12, 16, 31, 33] if tier == "quick" else [11, 12, 16, 24, 31, 32, 33, 48, 64])


def fam_bits(rec, tier, rnd, only=None):
    small, large = bit_widths(tier)
    for w in small:
        if only is not None and w != only:
            continue
        ow = w.bit_length()  # offsets 0..2^ow-1 cover 0..w and, unless w+1 is a power of two, some offsets > w
        vec = [(v, o, p) for v in range(1 << w) for o in range(1 << ow) for p in (0, 1)]
        comb_check(rec, f"shift_rotate/w{w}", build_bits(w, ow), vec, ref_bits(w), family="bit_shifters", exhaustive=True,
                   klass_of=lambda v, w=w: KLASS if v[1] > w else "")
        now = (w - 1).bit_length()  # the narrower range(w) offset idiom
        if now != ow:
            vec = [(v, o, p) for v in range(1 << w) for o in range(1 << now) for p in (0, 1)]
            comb_check(rec, f"shift_rotate/w{w}/narrow_offset", build_bits(w, now), vec, ref_bits(w), family="bit_shifters", exhaustive=True,
                       klass_of=lambda v, w=w: KLASS if v[1] > w else "")
    for w in large:
        if only is not None and w != only:
            continue
        ow = w.bit_length()
        vals = stratified(rnd, w, 40 if tier == "quick" else (200 if w <= 33 else 30))  # pysim needs ~35 ms per vector at 64 bits
        vec = [(v, o, p) for v in vals for o in range(0, w + 1) for p in (0, 1)]
        comb_check(rec, f"shift_rotate/w{w}", build_bits(w, ow), vec, ref_bits(w), family="bit_shifters")


LAY = data.StructLayout({"a": 2, "b": 3})


def fam_vec(rec, tier, rnd, only=None):
    for n in range(1, 6 if tier == "quick" else 8):
        if only is not None and n != only:
            continue
        # offset signals of both usual widths: one that can represent the length n (range(n + 1)) and the narrower range(n) idiom (zero bits for n = 1)
        for struct, ow in [(st, w_) for st in (False, True) for w_ in sorted({n.bit_length(), (n - 1).bit_length()})]:
            ew = 5 if struct else 3

            def build(n=n, struct=struct, ew=ew, ow=ow):
                m = Module()
                flat = [Signal(ew, name=f"e{i}") for i in range(n)]
                off = Signal(ow)
                ph = Signal(ew)
                if struct:
                    elems = [LAY(s) for s in flat]
                    phv = LAY(ph)
                else:
                    elems, phv = flat, ph
                outs = []
                for res in (shift_vec_right(elems, off, phv), shift_vec_left(elems, off, phv), rotate_vec_right(elems, off), rotate_vec_left(elems, off),
                            shift_vec_right(elems, off), shift_vec_left(elems, off)):
                    assert len(res) == n
                    if struct:
                        # structured results must keep their layout: read them field by field
                        s = Signal(ew * n)
                        m.d.comb += s.eq(Cat(Cat(r.a, r.b) for r in res))
                    else:
                        s = Signal(ew * n)
                        m.d.comb += s.eq(Cat(*res))
                    outs.append(s)
                return m, flat + [off, ph], outs

            def ref(*v, n=n, ew=ew):
                d, off, ph = list(v[:n]), v[n], v[n + 1]
                pack = lambda xs: sum(x << (ew * i) for i, x in enumerate(xs))
                sr = [d[i + off] if i + off < n else ph for i in range(n)]
                sl = [d[i - off] if i - off >= 0 else ph for i in range(n)]
                rr = [d[(i + off) % n] for i in range(n)]
                rl = [d[(i - off) % n] for i in range(n)]
                sr0 = [d[i + off] if i + off < n else 0 for i in range(n)]
                sl0 = [d[i - off] if i - off >= 0 else 0 for i in range(n)]
                return [pack(x) for x in (sr, sl, rr, rl, sr0, sl0)]

            vec = []
            for _ in range(12 if tier == "quick" else 60):
                d = [rnd.randrange(1, 1 << ew) for _ in range(n)]
                for o in range(1 << ow):
                    vec.append((*d, o, rnd.randrange(1 << ew)))
            comb_check(rec, f"vec/{'struct' if struct else 'plain'}/n{n}/ow{ow}", build, vec, ref, family="vector_shifters",
                       klass_of=lambda v, n=n: KLASS if v[n] > n else "")


FAMILIES = {"bits": fam_bits, "vec": fam_vec}


def shards(tier, seed):
    small, large = bit_widths(tier)
    out = [{"family": "bits", "tier": tier, "seed": seed, "only": w} for w in reversed(small + large)]
    out += [{"family": "vec", "tier": tier, "seed": seed, "only": n} for n in range(1, 6 if tier == "quick" else 8)]
    return out


def run_shard(spec, rec):
    FAMILIES[spec["family"]](rec, spec["tier"], random.Random(f"C37:{spec['seed']}:{spec['family']}:{spec['only']}"), spec["only"])
    rec.sample({"family": spec["family"], "instances": sorted(rec.distinct)[:6]})


RULE = ("shift_left/right (both placeholder bits), rotate_left/right for widths 1..8 (1..10 thorough) with EVERY value and every offset representable in "
        "bits_for(width) bits (so offsets 0..width and, for most widths, offsets beyond the width), widths up to 64 with stratified values x offsets "
        "0..width; vector variants on plain and struct elements, lengths 1..5 (1..7), every representable offset, explicit and default placeholder; "
        "distinct non-trivial case = one (function family, width/length, element kind) instance")
ASSUMPTIONS = ["offsets greater than the width are classified separately (known finding shift_rotate:offset>width)"]
MINIMA = {"quick": {"evaluations": 10000, "instances": 20, "cond:bit_shifters": 20000, "cond:vector_shifters": 2000}, "thorough": {"evaluations": 60000, "instances": 30}}
