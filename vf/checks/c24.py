"""C24 - ContentAddressableMemory behaves as a dictionary."""

from transactron.lib.storage import ContentAddressableMemory

from ..comp.common import ComponentCheck
from ..comp.models import CamM

ENTRIES = [1, 2, 3, 4, 8]


def pick(rnd, i):
    n = ENTRIES[i % len(ENTRIES)]
    keybits = rnd.choice([3, 4, 6]) if n <= 4 else rnd.choice([4, 6])
    nkeys = min(1 << keybits, n + 2)
    two = (i // len(ENTRIES)) % 3 == 2
    case = {"kind": "CAM", "entries": n, "key_bits": keybits, "keys": nkeys, "two_field_key": two}

    def make(r):
        if two:
            return ContentAddressableMemory([("a", keybits - 1), ("b", 1)], [("d", 8)], n), CamM(n, keybits, nkeys, two_fields=True)
        return ContentAddressableMemory([("a", keybits)], [("d", 8)], n), CamM(n, keybits, nkeys)

    return case, make, ""


CHECK = ComponentCheck("C24", pick, drain=0)
shards, run_shard = CHECK.shards, CHECK.run_shard
RULE = ("[in 30% of the histories every provided exclusive method has a second, competing caller transaction: a request is issued by the main caller, the rival or both; condition exclusive_method_serves_at_most_one_caller_per_cycle] histories = hostile random read/write/remove/push sequences over few keys (entries+2) so that hits are frequent, 30% of the cycles aim all "
        "four methods at one key; a present key is never pushed (documented precondition); non-trivial distinct case = (entries, set of >=2 executed "
        "methods, same key or not, occupancy)")
ASSUMPTIONS = ["keys pushed are absent at cycle start (generator consults the model)"]
MINIMA = {"quick": {"cycles": 5000, "calls:push": 300, "calls:remove": 1000, "calls:read": 1000, "calls:write": 1000, "distinct": 40},
          "thorough": {"cycles": 500000, "distinct": 100}}
