"""C31 - hardware counters and histograms count exactly."""

from __future__ import annotations

import enum
import random
import traceback

from amaranth import Elaboratable, Signal, Fragment
from amaranth.back import rtlil
from transactron import TModule, Transaction
from transactron.core.context import TransactronContextElaboratable
from transactron.lib.metrics import HwCounter, TaggedCounter, HwExpHistogram, HwMetricsEnabledKey, HardwareMetricsManager
from transactron.testing import PysimSimulator
from transactron.utils.dependencies import DependencyContext, DependencyManager

from ..comp.driver import Model, run_history

TECHNIQUE = "runtime monitoring: metric registers compared every cycle with Python counters modulo register width, stepped with the calls observed to execute"


class Dense(enum.IntEnum):
    A = 0
    B = 1
    C = 2


class Sparse(enum.IntEnum):
    A = 1
    B = 5
    C = 6


class OneHot(enum.IntEnum):
    A = 1
    B = 2
    C = 4


class OneHotGaps(enum.IntEnum):
    A = 1
    B = 4


TAGSETS = [
    ("range(5)", lambda: range(5)), ("range(-2,3)", lambda: range(-2, 3)), ("range(3,9)", lambda: range(3, 9)),
    ("Enum dense", lambda: Dense), ("Enum sparse", lambda: Sparse), ("Enum one-hot", lambda: OneHot), ("Enum one-hot gaps", lambda: OneHotGaps),
    ("[-3,0,7]", lambda: [-3, 0, 7]), ("[1,2,4]", lambda: [1, 2, 4]), ("[1,4]", lambda: [1, 4]), ("[2,4]", lambda: [2, 4]), ("[1,2,8]", lambda: [1, 2, 8]),
    ("[4]", lambda: [4]), ("[0,1]", lambda: [0, 1]), ("[2,8,16]", lambda: [2, 8, 16]),
]


def enable_metrics():
    DependencyContext.get().add_dependency(HwMetricsEnabledKey(), True)


class CounterM(Model):
    check_ready = True

    def __init__(self, ways, width):
        self.ways, self.width, self.c = ways, width, 0
        self.ports = {f"incr#{k}": 1 for k in range(ways)}

    def apply(self, c):
        self.c = (self.c + len(c)) % (1 << self.width)

    def nontrivial(self, c):
        return f"ctr|w{self.width}|ways{self.ways}|n{len(c)}|{'wrap' if self.c + len(c) >= (1 << self.width) else ''}"

    def extra_signals(self, dut):
        return [dut.count.value]

    def extra_expected(self):
        return [("count", self.c)]


class TaggedM(Model):
    def __init__(self, ways, width, tagvals, name):
        self.ways, self.width, self.tags, self.name = ways, width, tagvals, name
        self.cnt = {t: 0 for t in tagvals}
        self.ports = {f"incr#{k}": 1 for k in range(ways)}

    def args(self, p, rnd):
        return {"tag": rnd.choice(self.tags)}

    def apply(self, c):
        for p, (a, _) in c.items():
            self.cnt[a["tag"]] = (self.cnt[a["tag"]] + 1) % (1 << self.width)

    def nontrivial(self, c):
        ts = [a["tag"] for a, _ in c.values()]
        return f"tag|{self.name}|ways{self.ways}|n{len(ts)}|{'same' if len(set(ts)) < len(ts) else 'diff'}" if ts else None

    def extra_signals(self, dut):
        self.order = list(dut.counters)
        return [dut.counters[t].value for t in self.order]

    def extra_expected(self):
        return [(f"counter[{t}]", self.cnt[t]) for t in self.order]


class HistM(Model):
    def __init__(self, ways, bc, sw, rw):
        self.ways, self.bc, self.sw, self.rw = ways, bc, sw, rw
        self.st = dict(count=0, sum=0, min=(1 << sw) - 1, max=0, b=[0] * bc)
        self.ports = {f"add#{k}": 1 for k in range(ways)}

    def args(self, p, rnd):
        sw = self.sw
        return {"sample": rnd.choice([0, 1, rnd.randrange(1 << sw), (1 << sw) - 1, 1 << rnd.randrange(sw), (1 << rnd.randrange(sw)) - 1 if sw > 1 else 0])}

    def apply(self, c):
        st, M = self.st, 1 << self.rw
        for p, (a, _) in c.items():
            s = a["sample"]
            st["count"] = (st["count"] + 1) % M
            st["sum"] = (st["sum"] + s) % M
            st["min"], st["max"] = min(st["min"], s), max(st["max"], s)
            b = 0 if s == 0 else min(s.bit_length(), self.bc - 1)  # [2^(i-1), 2^i) -> bucket i, last bucket open-ended
            st["b"][b] = (st["b"][b] + 1) % M

    def nontrivial(self, c):
        if not c:
            return None
        bs = sorted({0 if a["sample"] == 0 else min(a["sample"].bit_length(), self.bc - 1) for a, _ in c.values()})
        return f"hist|bc{self.bc}sw{self.sw}rw{self.rw}|ways{self.ways}|buckets{bs}"

    def extra_signals(self, dut):
        return [dut.count.value, dut.sum.value, dut.min.value, dut.max.value] + [b.value for b in dut.buckets]

    def extra_expected(self):
        st = self.st
        return [("count", st["count"]), ("sum", st["sum"]), ("min", st["min"]), ("max", st["max"])] + [(f"bucket[{i}]", v) for i, v in enumerate(st["b"])]


class DisabledCirc(Elaboratable):
    """Metrics disabled: the calls must be accepted inside bodies and produce no hardware."""

    def __init__(self):
        self.ctr = HwCounter("x.ctr", ways=2)
        self.tag = TaggedCounter("x.tag", tags=range(4), ways=1)
        self.hist = HwExpHistogram("x.hist", bucket_count=4, sample_width=4)
        self.ran = Signal()
        self.en = Signal()
        self.alive = Signal(4)

    def elaborate(self, platform):
        m = TModule()
        m.submodules.ctr, m.submodules.tag, m.submodules.hist = self.ctr, self.tag, self.hist
        with Transaction().body(m, ready=self.en):
            self.ctr.incr[0](m)
            self.ctr.incr[1](m)
            self.tag.incr[0](m, tag=2)
            self.hist.add[0](m, sample=5)
            m.d.comb += self.ran.eq(1)
            m.d.sync += self.alive.eq(self.alive + 1)
        return m


def run_disabled(rec, rnd, case):
    with DependencyContext(DependencyManager()):
        try:
            circ = DisabledCirc()
            sim = PysimSimulator(circ, max_cycles=40)
            res = {}

            async def tb(ctx):
                n = 0
                for cyc in range(20):
                    en = rnd.random() < 0.7
                    ctx.set(circ.en, en)
                    _, _, ran = await ctx.tick().sample(circ.ran)
                    res.setdefault("mismatch", 0)
                    res["mismatch"] += int(bool(ran) != en)
                    n += en
                res["n"] = n
                res["regs"] = [ctx.get(circ.ctr.count.value), ctx.get(circ.hist.count.value), ctx.get(circ.tag.counters[2].value)]

            sim.add_testbench(tb)
            sim.run()
            rec.check("disabled:calls_accepted_and_body_runs", res["mismatch"] == 0 and res["n"] > 0, case=case, detail=res)
            rec.check("disabled:registers_never_change", res["regs"] == [0, 0, 0], case=case, detail=res)
            try:
                metrics = HardwareMetricsManager().get_metrics()
            except Exception:
                metrics = {}
            rec.check("disabled:no_metric_registered", len(metrics) == 0, case=case, detail=list(metrics))
            # produce the netlist of a fresh instance and make sure no metric register made it into the design
            with DependencyContext(DependencyManager()):
                circ2 = DisabledCirc()
                text = rtlil.convert(TransactronContextElaboratable(circ2, dependency_manager=DependencyContext.get()), ports=[circ2.en, circ2.ran])
            names = ["bucket-inf", "bucket-1", "\\count", "\\sum", "\\min", "\\max"]
            present = [n for n in names if n in text]
            rec.check("disabled:no_metric_hardware_in_netlist", not present, case=case, detail=present)
            rec.count("disabled_runs")
        except Exception:
            rec.check("disabled:calls_accepted_and_body_runs", False, case=case, detail=traceback.format_exc()[-1200:])


def pick(rnd, i):
    kind = ["counter", "tagged", "hist", "hist", "tagged"][i % 5]
    ways = rnd.randint(1, 4)
    if kind == "counter":
        width = rnd.choice([3, 5, 32])
        case = {"kind": "HwCounter", "ways": ways, "width_bits": width}

        def make(r):
            enable_metrics()
            return HwCounter("c", width_bits=width, ways=ways), CounterM(ways, width)
    elif kind == "tagged":
        name, mk = TAGSETS[(i // 5) % len(TAGSETS)]
        width = rnd.choice([3, 6, 32])
        case = {"kind": "TaggedCounter", "ways": ways, "registers_width": width, "tags": name}

        def make(r):
            enable_metrics()
            tags = mk()
            vals = [int(t) for t in tags]
            return TaggedCounter("t", tags=tags, registers_width=width, ways=ways), TaggedM(ways, width, vals, name)
    else:
        bc, sw, rw = 1 + (i // 5) % 8, rnd.randint(1, 8), rnd.choice([4, 6, 32])
        case = {"kind": "HwExpHistogram", "ways": ways, "bucket_count": bc, "sample_width": sw, "registers_width": rw}

        def make(r):
            enable_metrics()
            return HwExpHistogram("h", bucket_count=bc, sample_width=sw, registers_width=rw, ways=ways), HistM(ways, bc, sw, rw)
    return case, make


def shards(tier, seed):
    n = 120 if tier == "quick" else 3000
    per = 4 if tier == "quick" else 20
    return [{"seed": seed, "first": i, "n": per, "cycles": 250 if tier == "quick" else 800} for i in range(0, n, per)]


def run_shard(spec, rec):
    for i in range(spec["first"], spec["first"] + spec["n"]):
        rnd = random.Random(f"C31:{spec['seed']}:{i}")
        case, make = pick(rnd, i)
        case = dict(case, history=i)
        rec.count("configs:" + case["kind"])
        # in a quarter of the histories every way has a second, competing caller: each way counts one call per cycle
        run_history(rec, make, rnd, spec["cycles"], case, prop_tag=case["kind"], rivals=random.Random(f"rivals:C31:{spec['seed']}:{i}").random() < 0.25)
        if len(rec.samples) < 2:
            rec.sample(case)
    if spec["first"] % 20 == 0:
        run_disabled(rec, random.Random(f"C31:{spec['seed']}:dis:{spec['first']}"), {"kind": "metrics disabled", "first": spec["first"]})


RULE = ("HwCounter (ways 1-4, register widths 3/5/32 so wrap-around occurs), TaggedCounter over 15 tag sets (ranges incl. negative start, dense/sparse/one-hot/"
        "one-hot-with-gaps Enums, integer lists incl. negative, one-hot [1,2,4], one-hot with gaps [1,4] [2,4] [1,2,8] [2,8,16], singleton), HwExpHistogram "
        "(bucket_count 1-8 x sample_width 1-8 x register widths 4/6/32, samples biased to 0, 1, powers of two and their predecessors, maximum); all ways "
        "driven every cycle; registers compared every cycle; metrics disabled: calls inside a transaction body accepted, registers constant, no metric "
        "registered, no metric register in the RTLIL netlist; distinct non-trivial case = (metric, configuration, number of simultaneous calls, "
        "same/different tags or bucket set)")
ASSUMPTIONS = ["only member tags are passed to TaggedCounter.incr", "registers lag the calls by one clock edge"]
MINIMA = {"quick": {"cycles": 15000, "calls:incr": 10000, "calls:add": 8000, "disabled_runs": 1, "distinct": 150},
          "thorough": {"cycles": 1000000, "distinct": 400}}
