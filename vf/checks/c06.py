"""C06 - body effects follow the run signal (av_comb/top_comb semantics)."""

from ..gen.checks import GenCheck, COMMON_ASSUMPTIONS

ENGINE = "dgen+refsem"
TECHNIQUE = "runtime monitoring: random well-formed designs emitted as real Transactron objects, simulated under hostile input valuations; per-cycle oracle = independent reference semantics over sampled run/data/witness signals"
CHECK = GenCheck("C06", ("C06:",), {"p_struct": 0.45, "p_call": 0.3, "max_nesting": 3, "p_nested_fsm": 0.6}, scheds=("eager",), nontrivial_counter="domain_cycles_conditions_hold_but_body_idle")
shards, run_shard = CHECK.shards, CHECK.run_shard
ASSUMPTIONS = COMMON_ASSUMPTIONS
RULE = ("witness assignments in the four domains (comb, sync as a toggle register, av_comb, top_comb) placed at random positions inside bodies, nested bodies and If/Switch/FSM blocks; oracle: comb/sync effect iff all enclosing bodies run and the ordinary conditions hold, av_comb iff the ordinary conditions hold, top_comb always; non-trivial design = some cycle where the ordinary conditions held but the body did not run (where the domains differ); distinct = design shape signature")
MINIMA = {"quick": {"cycles": 8000, "domain_cycles_conditions_hold_but_body_idle": 2000, "domain_checks_inside_fsm_state": 1000, "cond:C06:sync_assignment_takes_effect_iff_body_ran_and_conditions_held": 1000, "distinct": 15}, "thorough": {"cycles": 1000000, "distinct": 400}}
