"""C09 - round-robin scheduler: one grant per component, no starvation."""

from ..gen.checks import GenCheck, COMMON_ASSUMPTIONS

ENGINE = "dgen+refsem"
TECHNIQUE = "runtime monitoring: per-component grant monitor (components taken from a recording wrapper around trivial_roundrobin_cc_scheduler) with a bounded-wait counter in logical cycles"
CHECK = GenCheck("C09", ("C09:",), {"max_nesting": 0, "p_forwarder": 0.0, "p_rd": 0.0, "max_sb": 2, "max_conflicts": 3, "p_call": 0.55, "max_transactions": 6},
                 scheds=("rr",), nontrivial_counter="rr_multi_transaction_component_cycles", quick=(150, 200), thorough=(8000, 400))
shards, run_shard = CHECK.shards, CHECK.run_shard
ASSUMPTIONS = COMMON_ASSUMPTIONS + ["components that contain an internal ready dependency (nesting, schedule_before(ready_dependent), Forwarder-style ready on a member) are "
                                    "only checked for 'at most one runs' - the property quantifies over designs without intra-component ready dependencies",
                                    "'enabled' is the reference notion enabled_strong of section 3.2"]
RULE = ("random well-formed designs with up to 6 top-level transactions under trivial_roundrobin_cc_scheduler; the components are those handed to the scheduler; "
        "valuations include long everyone-requesting phases (p=1) besides biased random ones; oracle per component and cycle: sum(run) <= 1, some member "
        "enabled => exactly one runs, a member enabled continuously is granted within |component| cycles (bound counted in logical cycles); non-trivial "
        "design = has a component with >= 2 transactions; distinct = (design shape signature); distinct_states = (component size, enabled vector, grant vector)")
MINIMA = {"quick": {"cycles": 15000, "rr_multi_transaction_component_cycles": 5000, "rr_requesters_served_after_maximal_wait": 500,
                    "cond:C09:one_runs_whenever_some_transaction_of_the_component_is_enabled": 5000, "distinct": 20},
          "thorough": {"cycles": 2000000, "distinct": 500}}
