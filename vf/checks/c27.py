"""C27 - CircularAllocator hands out identifiers in ring order."""

from transactron.lib.allocators import CircularAllocator

from ..comp.common import ComponentCheck
from ..comp.models import CircM

ENTRIES = [1, 2, 3, 5, 8, 16, 6]


def pick(rnd, i):
    n = ENTRIES[i % len(ENTRIES)]
    ma, mf = rnd.randint(1, min(4, n)), rnd.randint(1, min(4, n))
    validate = (i // len(ENTRIES)) % 4 != 3
    case = {"kind": "CircAlloc", "entries": n, "max_alloc": ma, "max_free": mf, "with_validate_arguments": validate}

    def make(r):
        return CircularAllocator(n, ma, mf, with_validate_arguments=validate), CircM(n, ma, mf, validate)

    return case, make, ""


CHECK = ComponentCheck("C27", pick, drain=0, embedded=(("CircularAllocator",), ("basicfifo", "serializer", "pipeline")),
                       suite=(("CircularAllocator",), ("test/lib/test_allocators.py", "test/lib/test_fifo.py", "test/lib/test_pipeline.py")))
shards, run_shard = CHECK.shards, CHECK.run_shard
RULE = ("[in 30% of the histories every provided exclusive method has a second, competing caller transaction: a request is issued by the main caller, the rival or both; condition exclusive_method_serves_at_most_one_caller_per_cycle] [plus a second workload: CircularAllocator instances embedded in BasicFifo (driven directly, inside Serializer and inside pipelines), watched passively (vf/passive.py) against the same reference model: readiness, results and state registers every cycle, conditions embedded:*] histories = hostile random alloc(count)/free(count)/clear sequences for entries in {1,2,3,5,6,8,16}, max_alloc/max_free 1-4; with validation "
        "counts are unconstrained (overflowing/underflowing calls must be refused), without validation the stimulus respects the documented "
        "precondition; start/end/allocated registers compared every cycle; non-trivial distinct case = (config, tags among alloc+free, pointer "
        "wrap, fills, empties, clear racing)")
ASSUMPTIONS = ["without validation hardware the stimulus keeps counts within the documented precondition"]
MINIMA = {"quick": {"embedded_CircularAllocator_cycles": 3000, "cycles": 5000, "calls:alloc": 1000, "calls:free": 1000, "distinct": 40}, "thorough": {"cycles": 500000, "distinct": 100}}
