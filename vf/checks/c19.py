"""C19 - Serializer and ArgumentsToResultsZipper keep requests and responses matched."""

from __future__ import annotations

import collections
import random
import traceback

from transactron.lib import Adapter, Serializer, ArgumentsToResultsZipper
from transactron.testing import SimpleTestCircuit, PysimSimulator, TestbenchIO
from transactron.utils import ModuleConnector
from transactron.utils.dependencies import DependencyContext, DependencyManager

ENGINE = "compmon"
TECHNIQUE = "runtime monitoring: offline-style matching of recorded request/response events with unique ids against an in-order server model, checked online each cycle"


def f(x):
    return (x * 3 + 1) & 0xFFFF


def run_serializer(rec, rnd, cycles, case):
    ports, depth = case["ports"], case["depth"]
    with DependencyContext(DependencyManager()):
        try:
            req = TestbenchIO(Adapter(i=[("id", 16)]))
            resp = TestbenchIO(Adapter(o=[("val", 16)]))
            dut = Serializer(port_count=ports, serialized_req_method=req.adapter.iface, serialized_resp_method=resp.adapter.iface, depth=depth)
            circ = SimpleTestCircuit(dut, exclude={"serialized_req_method", "serialized_resp_method"})
            # in half of the histories every client port has a second, competing caller on serialize_in and serialize_out
            rv = None
            if case.get("library_history", case.get("history", 0)) % 2 == 1:
                from ..comp.driver import RivalSet
                rv = RivalSet({**{f"in{k}": mth for k, mth in enumerate(dut.serialize_in)}, **{f"out{k}": mth for k, mth in enumerate(dut.serialize_out)}})
                rec.count("histories_with_rival_callers")
            top = ModuleConnector(circ=circ, req=req, resp=resp, **({"rivals": rv} if rv is not None else {}))
            sim = PysimSimulator(top, max_cycles=cycles + 60)
            from .. import txsan, passive
            txsan.maybe_attach(sim, case)
            passive.maybe_attach(sim, case)
        except Exception:
            rec.check("constructs", False, case=case, detail=traceback.format_exc()[-1200:])
            return
        totals = {"req": 0, "resp": 0}

        async def drv(ctx):
            ins, outs = circ.serialize_in, circ.serialize_out
            sigs = [io.adapter.done for io in ins] + [x for io in outs for x in (io.adapter.done, io.adapter.data_out)] + \
                   [req.adapter.done, req.adapter.data_out, resp.adapter.done]
            nmain = len(sigs)
            if rv is not None:
                sigs += rv.signals()
            trig = ctx.tick().sample(*sigs)
            server = collections.deque()  # ids accepted by the server, in order
            sent = [collections.deque() for _ in range(ports)]
            order = collections.deque()  # client index per outstanding request, in server order
            nid = 1
            pin = [rnd.choice([0.1, 0.5, 1.0]) for _ in range(ports)]
            pout = [rnd.choice([0.2, 0.6, 1.0]) for _ in range(ports)]
            psrv, preq = rnd.choice([0.3, 0.7, 1.0]), rnd.choice([0.5, 0.8, 1.0])
            lat = rnd.randint(0, 5)
            ages = collections.deque()
            log = collections.deque(maxlen=8)
            for cyc in range(cycles + 50):
                drain = cyc >= cycles
                if cyc % 80 == 79:
                    pin = [rnd.choice([0.1, 0.5, 1.0]) for _ in range(ports)]
                    psrv = rnd.choice([0.3, 0.7, 1.0])
                ids = []
                for k, io in enumerate(ins):
                    en_k = (not drain) and rnd.random() < pin[k]
                    if rv is not None:
                        rv.request(ctx, rnd, f"in{k}", io, en_k, {"id": (nid + k) & 0xFFFF}, rec)
                    else:
                        ctx.set(io.adapter.en, en_k)
                        ctx.set(io.adapter.data_in, {"id": (nid + k) & 0xFFFF})
                    ids.append((nid + k) & 0xFFFF)
                for k, io in enumerate(outs):
                    en_k = drain or rnd.random() < pout[k]
                    if rv is not None:
                        rv.request(ctx, rnd, f"out{k}", io, en_k, None, rec)
                    else:
                        ctx.set(io.adapter.en, en_k)
                ctx.set(req.adapter.en, drain or rnd.random() < preq)
                have = len(server) > 0 and cyc - ages[0] >= lat and (drain or rnd.random() < psrv)
                ctx.set(resp.adapter.en, have)
                ctx.set(resp.adapter.data_in, {"val": f(server[0]) if server else 0})
                _, _, *v = await trig
                d_in = [bool(x) for x in v[:ports]]
                d_out = [bool(x) for x in v[ports:ports + 2 * ports:2]]
                o_out = list(v[ports + 1:ports + 2 * ports:2])
                if rv is not None:
                    rvals = v[nmain:]
                    for k in range(ports):
                        d_in[k], _ = rv.fold(rec, case, f"in{k}", d_in[k], None, rvals, {"cycle": cyc})
                        d_out[k], o_out[k] = rv.fold(rec, case, f"out{k}", d_out[k], o_out[k], rvals, {"cycle": cyc})
                d_req, a_req, d_resp = bool(v[3 * ports]), v[3 * ports + 1], bool(v[3 * ports + 2])
                entry = {"cycle": cyc, "serialize_in_done": d_in, "serialize_out_done": d_out, "req_done": d_req, "resp_done": d_resp,
                         "outstanding": [list(s) for s in sent]}
                log.append(entry)
                det = {"last_cycles": list(log)}
                rec.check("serializer:one_request_forwarded_per_accepted_client_request", sum(d_in) == int(d_req), case=case, detail=det)
                rec.check("serializer:one_response_consumed_per_delivered_response", sum(d_out) == int(d_resp), case=case, detail=det)
                for k in range(ports):
                    if d_out[k]:
                        if not rec.check("serializer:response_only_to_client_with_outstanding_request", bool(sent[k]), case=case, detail=dict(det, client=k)):
                            return
                        exp = f(sent[k].popleft())
                        rec.check("serializer:client_receives_responses_to_its_own_requests_in_order", o_out[k].val == exp, case=case,
                                  detail=dict(det, client=k, observed=o_out[k].val, expected=exp))
                        rec.check("serializer:responses_follow_global_request_order", bool(order) and order[0] == k, case=case, detail=dict(det, client=k))
                        if order:
                            order.popleft()
                        totals["resp"] += 1
                        rec.count("responses")
                if d_resp:
                    server.popleft()
                    ages.popleft()
                for k in range(ports):
                    if d_in[k]:
                        rec.check("serializer:request_argument_forwarded", a_req.id == ids[k], case=case, detail=dict(det, client=k))
                        server.append(ids[k])
                        ages.append(cyc)
                        sent[k].append(ids[k])
                        order.append(k)
                        totals["req"] += 1
                        rec.count("requests")
                if len(order) == depth:
                    rec.count("pending_queue_full_cycles")
                rec.check("serializer:outstanding_requests_bounded_by_depth", len(order) <= depth, case=case, detail=det)
                rec.count("cycles")
                rec.nontrivial(f"ser|p{ports}d{depth}|in{sum(d_in)}out{sum(d_out)}|pend{len(order)}")
                if rec.viol_total:
                    return
            rec.check("serializer:no_response_lost_or_duplicated", totals["req"] == totals["resp"] and not any(sent), case=case,
                      detail={"requests": totals["req"], "responses": totals["resp"], "outstanding": [list(s) for s in sent]})

        sim.add_testbench(drv)
        try:
            sim.run()
        except Exception:
            if not rec.viol_total:
                rec.check("simulates", False, case=case, detail=traceback.format_exc()[-1200:])
    rec.count("histories")


def run_zipper(rec, rnd, cycles, case):
    with DependencyContext(DependencyManager()):
        dut = ArgumentsToResultsZipper([("a", 16)], [("r", 16)])
        circ = SimpleTestCircuit(dut)
        sim = PysimSimulator(circ, max_cycles=cycles + 40)
        from .. import txsan, passive
        txsan.maybe_attach(sim, case)
        passive.maybe_attach(sim, case)

        async def drv(ctx):
            trig = ctx.tick().sample(circ.write_args.adapter.done, circ.write_results.adapter.done, circ.read.adapter.done, circ.read.adapter.data_out,
                                     circ.peek_arg.adapter.done, circ.peek_arg.adapter.data_out)
            args_q, res_q = collections.deque(), collections.deque()
            na = nr = 0
            pa, pr, pd = rnd.choice([0.3, 0.6, 1.0]), rnd.choice([0.3, 0.6, 1.0]), rnd.choice([0.3, 0.6, 1.0])
            k_read = 0
            log = collections.deque(maxlen=8)
            for cyc in range(cycles + 30):
                drain = cyc >= cycles
                if cyc % 60 == 59:
                    pa, pr, pd = rnd.choice([0.3, 0.6, 1.0]), rnd.choice([0.3, 0.6, 1.0]), rnd.choice([0.3, 0.6, 1.0])
                ctx.set(circ.write_args.adapter.en, (not drain) and rnd.random() < pa)
                ctx.set(circ.write_args.adapter.data_in, {"a": na & 0xFFFF})
                # the callee answers only requests that were already issued (results are never ahead of arguments)
                ctx.set(circ.write_results.adapter.en, nr < na and (drain or rnd.random() < pr))
                ctx.set(circ.write_results.adapter.data_in, {"r": (nr ^ 0x5555) & 0xFFFF})
                ctx.set(circ.read.adapter.en, drain or rnd.random() < pd)
                ctx.set(circ.peek_arg.adapter.en, rnd.random() < 0.5)
                _, _, da, dr, dd, out, dp, pout = await trig
                log.append({"cycle": cyc, "write_args": bool(da), "write_results": bool(dr), "read": bool(dd), "args_pending": list(args_q), "results_pending": list(res_q)})
                det = {"last_cycles": list(log)}
                if dp:
                    rec.check("zipper:peek_arg_returns_oldest_argument", bool(args_q) and pout.a == args_q[0], case=case, detail=det)
                if dr:
                    res_q.append((nr ^ 0x5555) & 0xFFFF)
                    nr += 1
                if dd:
                    ok = bool(args_q) and bool(res_q)
                    if rec.check("zipper:read_only_when_argument_and_result_available", ok, case=case, detail=det):
                        ea, er = args_q.popleft(), res_q.popleft()
                        rec.check("zipper:kth_read_pairs_kth_argument_with_kth_result", out.args.a == ea and out.results.r == er and ea == k_read & 0xFFFF
                                  and er == (k_read ^ 0x5555) & 0xFFFF, case=case, detail=dict(det, observed=[out.args.a, out.results.r], expected=[ea, er]))
                        k_read += 1
                        rec.count("pairs")
                if da:
                    args_q.append(na & 0xFFFF)
                    na += 1
                rec.check("zipper:at_most_two_arguments_and_one_result_buffered", len(args_q) <= 2 and len(res_q) <= 1, case=case, detail=det)
                rec.count("cycles")
                rec.nontrivial(f"zip|a{len(args_q)}r{len(res_q)}|{int(bool(da))}{int(bool(dr))}{int(bool(dd))}")
                if rec.viol_total:
                    return
            rec.check("zipper:every_pair_delivered", not args_q and not res_q and k_read == na, case=case, detail={"written": na, "read": k_read})

        sim.add_testbench(drv)
        try:
            sim.run()
        except Exception:
            if not rec.viol_total:
                rec.check("simulates", False, case=case, detail=traceback.format_exc()[-1200:])
    rec.count("histories")


def shards(tier, seed):
    n = 40 if tier == "quick" else 1200
    per = 2 if tier == "quick" else 12
    return [{"seed": seed, "first": i, "n": per, "cycles": 350 if tier == "quick" else 1200} for i in range(0, n, per)]


def run_shard(spec, rec):
    for i in range(spec["first"], spec["first"] + spec["n"]):
        rnd = random.Random(f"C19:{spec['seed']}:{i}")
        if i % 4 == 3:
            case = {"component": "ArgumentsToResultsZipper", "history": i}
            run_zipper(rec, rnd, spec["cycles"], case)
        else:
            case = {"component": "Serializer", "ports": 1 + (i % 4 + i // 4) % 4, "depth": [1, 2, 3, 4, 8][(i // 3) % 5], "history": i}
            run_serializer(rec, rnd, spec["cycles"], case)
        if len(rec.samples) < 2:
            rec.sample(case)


RULE = ("Serializer with 1-4 clients and queue depth {1,2,3,4,8}: clients (AdapterTrans) issue requests carrying unique ids with skewed/bursty "
        "probabilities, the server is two Adapters plus an in-order Python server model with latency 0-5 and random stalls answering f(id); every "
        "response is matched per client against its own outstanding requests, in order; drain phase proves nothing is lost; "
        "ArgumentsToResultsZipper: k-th read must pair the k-th written argument with the k-th written result (results never ahead of arguments); "
        "distinct non-trivial case = (component, ports/depth, simultaneous request/response counts, queue occupancy)")
ASSUMPTIONS = ["the server answers in order (documented assumption of Serializer)", "Serializer.clear is not exercised"]
MINIMA = {"quick": {"cycles": 8000, "requests": 2000, "responses": 2000, "pairs": 500, "pending_queue_full_cycles": 200, "distinct": 40},
          "thorough": {"cycles": 800000, "distinct": 100}}
