"""C03 - a transaction runs only when it is fully enabled."""

from ..gen.checks import GenCheck, COMMON_ASSUMPTIONS

ENGINE = "dgen+refsem"
TECHNIQUE = "runtime monitoring: random well-formed designs emitted as real Transactron objects, simulated under hostile input valuations; per-cycle oracle = independent reference semantics over sampled run/data/witness signals"
CHECK = GenCheck("C03", ("C03:",), {"p_validate": 0.8, "max_nesting": 3, "max_sb": 3, "p_vdiamond": 0.4, "p_rel_order": 0.5}, scheds=("eager", "rr"), library=True, suite=True, cond=True, nontrivial_counter="cycles_locked_by_method_behind_disabled_call")
shards, run_shard = CHECK.shards, CHECK.run_shard
ASSUMPTIONS = COMMON_ASSUMPTIONS
RULE = ("[plus the repository's own tests run with the transaction sanitizer attached to every simulator they create - two files in the quick tier, the whole suite in the thorough tier; test outcomes are not verdicts] [plus condition() designs of the cond profile, where nested branch transactions are merged with their enclosing body] [plus a realistic second workload: library components (FIFOs, stack, connectors, memories, CAM, allocators, metrics) under the hostile component driver with the design-independent transaction sanitizer vf/txsan.py attached] random well-formed designs (validation on most methods with inputs, nesting depth <= 3, schedule_before(ready_dependent) chains), both schedulers; oracle: run[T] implies own readiness, readiness of every method of the static call tree incl. calls under false conditions / enable_call=0, validation predicates of path-enabled calls, and run of every body T is ready-dependent on; non-trivial design = some cycle in which T was ready but a method behind a disabled call was not; distinct = (design shape signature, scheduler)")
MINIMA = {"quick": {"cycles": 8000, "cycles_locked_by_method_behind_disabled_call": 300, "cycles_blocked_only_by_validation": 100, "cycles_blocked_only_by_ready_dependency": 300, "distinct": 15}, "thorough": {"cycles": 1000000, "distinct": 400}}
