"""C07 - the eager scheduler wastes no cycle."""

from ..gen.checks import GenCheck, COMMON_ASSUMPTIONS

ENGINE = "dgen+refsem"
TECHNIQUE = "runtime monitoring: random well-formed designs emitted as real Transactron objects, simulated under hostile input valuations; per-cycle oracle = independent reference semantics over sampled run/data/witness signals"
CHECK = GenCheck("C07", ("C07:",), {"nonex_weight": 1.5, "max_sb": 3, "p_double_conflict": 0.3, "p_nonex_depth": 0.4}, scheds=("eager",), cond=True, nontrivial_counter="enabled_but_blocked_cycles")
shards, run_shard = CHECK.shards, CHECK.run_shard
ASSUMPTIONS = COMMON_ASSUMPTIONS
RULE = ("[plus condition() designs of the cond profile: with no outside transaction asking to run, the enclosing body and its caller run iff fully enabled] random well-formed designs under eager_deterministic_cc_scheduler (calls in different alternatives from two transactions, nonexclusive common ancestors, schedule_before chains); oracle: a fully enabled transaction that does not run has a running transaction that conflicts with it under the reference conflict relation (shared exclusive method on non-exclusive paths, or add_conflict) - schedule_before pairs, exclusive alternatives and nonexclusive sharing are not excuses; non-trivial design = some enabled-but-blocked cycle; distinct = design shape signature")
MINIMA = {"quick": {"cycles": 8000, "enabled_but_blocked_cycles": 400, "pairs_sharing_a_method_without_conflict_edge": 5, "distinct": 15}, "thorough": {"cycles": 1000000, "distinct": 400}}
