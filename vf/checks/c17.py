"""C17 - Forwarder and Pipe are lossless one-slot buffers."""

from transactron.lib import Forwarder, Pipe

from ..comp.common import ComponentCheck
from ..comp.models import SlotM, rand_payload


def pick(rnd, i):
    kind = "fwd" if i % 2 == 0 else "pipe"
    pay = rand_payload(rnd)
    case = {"kind": "Forwarder" if kind == "fwd" else "Pipe", "layout": pay.layout}

    def make(r):
        return (Forwarder(pay.layout) if kind == "fwd" else Pipe(pay.layout)), SlotM(kind, pay)

    return case, make, ""


CHECK = ComponentCheck("C17", pick, tiers={"quick": (48, 400), "thorough": (1200, 1200)}, embedded=(("Forwarder", "Pipe"), ("zipper", "collector", "pipeline")),
                       suite=(("Forwarder", "Pipe"), ("test/lib/test_connectors.py", "test/lib/test_transformers.py", "test/lib/test_pipeline.py", "test/lib/test_reqres.py")))
shards, run_shard = CHECK.shards, CHECK.run_shard
RULE = ("[in 30% of the histories every provided exclusive method has a second, competing caller transaction: a request is issued by the main caller, the rival or both; condition exclusive_method_serves_at_most_one_caller_per_cycle] [plus a second workload: Forwarder / Pipe instances embedded in ArgumentsToResultsZipper, Collector and PipelineBuilder pipelines, watched passively (vf/passive.py) against the same reference model: readiness, results and state registers every cycle, conditions embedded:*] histories = hostile random read/peek/write/clear sequences on Forwarder and Pipe; readiness equations are evaluated with the *observed* "
        "same-cycle run of the other method; non-trivial distinct case = (component, set of >=2 simultaneously executed methods, buffer full/empty); "
        "the control space (16 enable combinations x 2 buffer states x 2 components) is finite and its coverage is reported in distinct_states")
ASSUMPTIONS = ["pysim execution"]
MINIMA = {"quick": {"embedded_Pipe_cycles": 2000, "cycles": 5000, "calls:read": 1000, "calls:write": 1000, "calls:clear": 50, "distinct": 12}, "thorough": {"cycles": 300000, "distinct": 14}}
