"""C01 - an exclusive method serves at most one active call per cycle."""

from ..gen.checks import GenCheck, COMMON_ASSUMPTIONS

ENGINE = "dgen+refsem"
TECHNIQUE = "runtime monitoring: random well-formed designs emitted as real Transactron objects, simulated under hostile input valuations; per-cycle oracle = independent reference semantics over sampled run/data/witness signals"
CHECK = GenCheck("C01", ("C01:",), {"p_call": 0.5, "p_xmod_conflict": 0.6, "xmod_shared_call": True, "p_elif_diamond": 0.4}, scheds=("eager", "rr"), library=True, suite=True, nontrivial_counter="exclusive_method_contended_cycles")
shards, run_shard = CHECK.shards, CHECK.run_shard
ASSUMPTIONS = COMMON_ASSUMPTIONS
RULE = ("[plus the repository's own tests run with the transaction sanitizer attached to every simulator they create - two files in the quick tier, the whole suite in the thorough tier; test outcomes are not verdicts] [plus a realistic second workload: library components (FIFOs, stack, connectors, memories, CAM, allocators, metrics) under the hostile component driver with the design-independent transaction sanitizer vf/txsan.py attached] random well-formed designs under both schedulers, all valuations when <= 10 input bits else biased random valuations (per-bit bias re-drawn every 25 cycles from {0.1,0.5,0.9,0.97}); oracle (a): per exclusive method at most one active call site; oracle (b): two co-running transactions reach a shared exclusive method only through chains diverging in different alternatives of one If/Switch/FSM (or merging in a nonexclusive ancestor); a design is non-trivial if in some cycle >= 2 call sites of one exclusive method had ready callers; distinct = (design shape signature, scheduler)")
MINIMA = {"quick": {"cycles": 8000, "exclusive_method_contended_cycles": 1500, "cycles_with_two_or_more_transactions_running": 1000, "pairs_sharing_a_method_without_conflict_edge": 5, "distinct": 20}, "thorough": {"cycles": 1000000, "distinct": 500}}
