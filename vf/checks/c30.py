"""C30 - InputSampler and OutputBuffer follow their trigger."""

from __future__ import annotations

import collections
import itertools
import random
import traceback

from transactron.lib.basicio import InputSampler, OutputBuffer
from transactron.testing import SimpleTestCircuit, PysimSimulator
from transactron.utils.dependencies import DependencyContext, DependencyManager

ENGINE = "compmon"
TECHNIQUE = "runtime monitoring: 2-register shadow model of the trigger configuration compared each cycle with get/put readiness, returned data and the data output"


def run_one(rec, rnd, edge, pol, sync, out, cycles, case):
    with DependencyContext(DependencyManager()):
        dut = (OutputBuffer if out else InputSampler)([("d", 8)], edge=edge, polarity=pol, synchronize=sync)
        circ = SimpleTestCircuit(dut)
        sim = PysimSimulator(circ, max_cycles=cycles + 10)
        io = circ.put if out else circ.get
        pattern = rnd.choice(["random", "square2", "square3", "sticky", "mostly_active", "mostly_idle"])
        case = dict(case, trigger_pattern=pattern)

        async def drv(ctx):
            trig = ctx.tick().sample(io.adapter.done, io.adapter.data_out, dut.data.d)
            hist_t, hist_d = [0, 0], [0, 0]  # raw trigger/data history, [-1] = previous cycle; reset assumption: 0
            held = 0
            log = collections.deque(maxlen=8)
            for cyc in range(cycles):
                if pattern == "random":
                    t = rnd.getrandbits(1)
                elif pattern == "square2":
                    t = (cyc // 1) % 2
                elif pattern == "square3":
                    t = int((cyc % 5) < 2)
                elif pattern == "sticky":
                    t = rnd.getrandbits(1) if rnd.random() < 0.3 else hist_t[-1]
                elif pattern == "mostly_active":
                    t = int(rnd.random() < 0.9) == pol
                else:
                    t = int(rnd.random() < 0.1) == pol
                t = int(t)
                dv, en, arg = rnd.randrange(256), rnd.random() < 0.8, rnd.randrange(256)
                ctx.set(dut.trigger, t)
                ctx.set(io.adapter.en, en)
                if out:
                    ctx.set(io.adapter.data_in, {"d": arg})
                else:
                    ctx.set(dut.data.d, dv)
                _, _, d, o, dataout = await trig
                cur = hist_t[-1] if sync else t
                prv = hist_t[-2] if sync else hist_t[-1]
                act = (cur == pol) if not edge else (cur == pol and prv != pol)
                log.append({"cycle": cyc, "trigger": t, "enabled": en, "done": bool(d), "expected_active": bool(act)})
                det = {"last_cycles": list(log)}
                rec.check("ready_exactly_when_trigger_active" + (":put" if out else ":get"), bool(d) == bool(en and act), case=case, detail=det)
                if act:
                    rec.count("active_cycles")
                if edge and cur == pol and prv == pol:
                    rec.count("level_held_without_edge_cycles")
                if not out and d:
                    expd = hist_d[-1] if sync else dv
                    rec.check("get_returns_synchronised_data", o.d == expd, case=case, detail=dict(det, observed=o.d, expected=expd))
                    rec.count("gets")
                if out:
                    rec.check("put_argument_on_data_from_next_cycle_and_held", dataout == held, case=case, detail=dict(det, observed=dataout, expected=held))
                    if d:
                        held = arg
                        rec.count("puts")
                hist_t.append(t)
                hist_d.append(dv)
                rec.count("cycles")
                rec.nontrivial(f"{'out' if out else 'in'}|e{int(edge)}p{int(pol)}s{int(sync)}|cur{cur}prv{prv}en{int(en)}")
                if rec.viol_total:
                    return

        sim.add_testbench(drv)
        sim.run()


def shards(tier, seed):
    reps = 2 if tier == "quick" else 40
    out = []
    for part in range(1 if tier == "quick" else 10):
        for edge, pol, sync in itertools.product([False, True], repeat=3):
            for o in (False, True):
                out.append({"seed": seed, "edge": edge, "pol": pol, "sync": sync, "out": o, "reps": reps, "part": part, "cycles": 300 if tier == "quick" else 1000})
    return out


def run_shard(spec, rec):
    for r in range(spec.get("part", 0) * spec["reps"], (spec.get("part", 0) + 1) * spec["reps"]):
        rnd = random.Random(f"C30:{spec['seed']}:{spec['edge']}:{spec['pol']}:{spec['sync']}:{spec['out']}:{r}")
        case = {"component": "OutputBuffer" if spec["out"] else "InputSampler", "edge": spec["edge"], "polarity": spec["pol"], "synchronize": spec["sync"], "rep": r}
        try:
            run_one(rec, rnd, spec["edge"], spec["pol"], spec["sync"], spec["out"], spec["cycles"], case)
        except Exception:
            if not rec.viol_total:
                rec.check("constructs_and_simulates", False, case=case, detail=traceback.format_exc()[-1200:])
        rec.count("histories")
    rec.sample(case)


def exhaustive(merged, tier):
    return False


RULE = ("all 8 (edge, polarity, synchronize) configurations x {InputSampler, OutputBuffer} every run; trigger histories: random, square waves, sticky, mostly "
        "active, mostly idle; shadow model: previous raw trigger is 0 at reset, synchronize delays trigger and data by one cycle; distinct non-trivial case "
        "= (component, configuration, current/previous effective trigger level, caller enabled) - a finite space of 256 combinations")
ASSUMPTIONS = ["the raw trigger is 0 before the first cycle (reset state of the synchroniser and edge detector)"]
MINIMA = {"quick": {"cycles": 8000, "gets": 1000, "puts": 1000, "active_cycles": 2000, "level_held_without_edge_cycles": 500, "distinct": 80},
          "thorough": {"cycles": 500000, "distinct": 100}}
