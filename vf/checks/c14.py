"""C14 - FIFO and BasicFifo behave as bounded queues."""

from transactron.lib import BasicFifo, FIFO

from ..comp.common import ComponentCheck
from ..comp.models import FifoM, rand_payload

DEPTHS = [1, 2, 3, 4, 5, 6, 7, 8, 12, 16]  # 6 and 12: even but not a power of two (index wrap must be modulo the depth, not a mask; seeded defect C14e)


def pick(rnd, i):
    basic = i % 2 == 0
    depth = DEPTHS[(i // 2) % len(DEPTHS)]
    pay = rand_payload(rnd)
    case = {"kind": "BasicFifo" if basic else "FIFO", "depth": depth, "layout": pay.layout}

    def make(r):
        dut = BasicFifo(pay.layout, depth) if basic else FIFO(pay.layout, depth)
        return dut, FifoM(depth, pay, basic)

    return case, make, ""


CHECK = ComponentCheck("C14", pick, embedded=(("BasicFifo", "FIFO"), ("serializer", "zipper", "pipeline")),
                       suite=(("BasicFifo", "FIFO"), ("test/lib/test_fifo.py", "test/lib/test_reqres.py", "test/lib/test_pipeline.py", "test/lib/test_connectors.py")))
shards, run_shard = CHECK.shards, CHECK.run_shard
RULE = ("[in 30% of the histories every provided exclusive method has a second, competing caller transaction: a request is issued by the main caller, the rival or both; condition exclusive_method_serves_at_most_one_caller_per_cycle] [plus a second workload: BasicFifo instances embedded in PipelineBuilder pipelines, Serializer and ArgumentsToResultsZipper, watched passively (vf/passive.py) against the same reference model: readiness, results and state registers every cycle, conditions embedded:*] histories = random hostile call sequences (per-method enable probability re-drawn from {0.1,0.5,0.9,1} every 20-120 cycles) "
        "on FIFO/BasicFifo of depth 1..16 and 1-3 field layouts with unique payload ids, followed by a drain phase; "
        "a case is non-trivial and distinct by (component, depth, set of simultaneously executed methods among read+write / clear+write / "
        "clear+read / peek+read, boundary class full/1/other, level)")
ASSUMPTIONS = ["pysim is the execution platform (no Yosys/Verilog back end available)",
               "readiness is observed as AND of Body.ready over the method's static callee tree"]
MINIMA = {"quick": {"embedded_BasicFifo_cycles": 2000, "cycles": 5000, "calls:read": 1000, "calls:write": 1000, "multi_call_cycles": 500, "distinct": 20},
          "thorough": {"cycles": 500000, "distinct": 60}}
