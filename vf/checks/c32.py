"""C32 - latency measurers record true latencies."""

from __future__ import annotations

import collections
import random
import traceback

from transactron.lib.metrics import FIFOLatencyMeasurer, WideFIFOLatencyMeasurer, TaggedLatencyMeasurer, HwMetricsEnabledKey
from transactron.testing import SimpleTestCircuit, PysimSimulator
from transactron.utils.dependencies import DependencyContext, DependencyManager

ENGINE = "compmon"
TECHNIQUE = "runtime monitoring: histogram registers of the measurer compared every cycle with a model fed with the latencies of the start/stop events observed to execute"


def hist_update(st, samples, bc, rw=32):
    for s in samples:
        st["count"] = (st["count"] + 1) % (1 << rw)
        st["sum"] = (st["sum"] + s) % (1 << rw)
        st["min"], st["max"] = min(st["min"], s), max(st["max"], s)
        b = 0 if s == 0 else min(s.bit_length(), bc - 1)
        st["b"][b] = (st["b"][b] + 1) % (1 << rw)


def regs_of(h):
    return [h.count.value, h.sum.value, h.min.value, h.max.value] + [b.value for b in h.buckets]


def fresh(h):
    return dict(count=0, sum=0, min=(1 << h.sample_width) - 1, max=0, b=[0] * h.bucket_count)


def expected(st):
    return [st["count"], st["sum"], st["min"], st["max"]] + st["b"]


def compare(rec, got, st, case, log, samples_total):
    exp = expected(st)
    names = ["count", "sum", "min", "max"] + [f"bucket[{i}]" for i in range(len(st["b"]))]
    for n, g, e in zip(names, got, exp):
        if not rec.check("histogram_register_matches_true_latencies:" + ("bucket" if n.startswith("bucket") else n), g == e, case=case,
                         detail={"register": n, "observed": g, "expected": e, "last_cycles": list(log)}):
            return False
    return True


def _attach(sim, case):
    from .. import txsan, passive
    txsan.maybe_attach(sim, case)
    passive.maybe_attach(sim, case)


def run_fifo(rec, rnd, cycles, case):
    slots, maxlat, ways = case["slots"], case["max_latency"], case["ways"]
    dut = FIFOLatencyMeasurer("lat", slots_number=slots, max_latency=maxlat, ways=ways)
    circ = SimpleTestCircuit(dut)
    # every second history: a second, competing caller on every start/stop way (a way records one event per cycle)
    rv = None
    if case.get("history", 0) % 2 == 1:
        from ..comp.driver import RivalSet
        from transactron.utils import ModuleConnector
        rv = RivalSet({**{f"start{k}": mth for k, mth in enumerate(dut.start)}, **{f"stop{k}": mth for k, mth in enumerate(dut.stop)}})
        rec.count("histories_with_rival_callers")
        sim = PysimSimulator(ModuleConnector(circ, rv), max_cycles=cycles + 10)
    else:
        sim = PysimSimulator(circ, max_cycles=cycles + 10)
    _attach(sim, case)
    _attach(sim, case)
    h = dut.histogram
    st = fresh(h)
    q = [collections.deque() for _ in range(ways)]

    async def drv(ctx):
        trig = ctx.tick().sample(*[io.adapter.done for io in circ.start], *[io.adapter.done for io in circ.stop], *regs_of(h), *(rv.signals() if rv is not None else []))
        ps, pp = rnd.choice([0.2, 0.5, 0.9]), rnd.choice([0.1, 0.4, 0.9])
        log = collections.deque(maxlen=8)
        for cyc in range(cycles):
            if cyc % 70 == 69:
                ps, pp = rnd.choice([0.2, 0.5, 0.9]), rnd.choice([0.1, 0.4, 0.9])
            for k in range(ways):
                old = q[k][0] if q[k] else None
                en_start = rnd.random() < ps
                # keep latencies within max_latency: force the stop when the oldest event is close to the limit
                en_stop = (old is not None and cyc - old >= maxlat - 1) or rnd.random() < pp
                if rv is not None:
                    rv.request(ctx, rnd, f"start{k}", circ.start[k], en_start, None, rec)
                    rv.request(ctx, rnd, f"stop{k}", circ.stop[k], en_stop, None, rec)
                else:
                    ctx.set(circ.start[k].adapter.en, en_start)
                    ctx.set(circ.stop[k].adapter.en, en_stop)
            _, _, *vals = await trig
            if rv is not None:
                rvals, vals = vals[-4 * ways:], list(vals[:-4 * ways])
                for k in range(ways):
                    vals[k], _ = rv.fold(rec, case, f"start{k}", vals[k], None, rvals, {"cycle": cyc})
                    vals[ways + k], _ = rv.fold(rec, case, f"stop{k}", vals[ways + k], None, rvals, {"cycle": cyc})
            d_start, d_stop, got = vals[:ways], vals[ways:2 * ways], vals[2 * ways:]
            log.append({"cycle": cyc, "start_done": [int(x) for x in d_start], "stop_done": [int(x) for x in d_stop], "open_events": [list(x) for x in q]})
            if not compare(rec, got, st, case, log, 0):
                return
            samples = []
            for k in range(ways):
                if d_stop[k]:
                    if not rec.check("stop_only_with_open_event", bool(q[k]), case=case, detail=list(log)):
                        return
                    samples.append(cyc - q[k].popleft())
                if d_start[k]:
                    rec.check("start_only_with_free_slot", len(q[k]) < slots or bool(d_stop[k]), case=case, detail=list(log))
                    q[k].append(cyc)
            for s in samples:
                rec.count("samples")
                if s == maxlat:
                    rec.count("samples_at_max_latency")
                rec.nontrivial(f"fifo|slots{slots}|lat_bucket{min(s.bit_length(), 9)}|ways{ways}")
            hist_update(st, samples, h.bucket_count)
            rec.count("cycles")

    sim.add_testbench(drv)
    sim.run()


def run_wide(rec, rnd, cycles, case):
    slots, maxlat, ms, mp = case["slots"], case["max_latency"], case["max_start_count"], case["max_stop_count"]
    dut = WideFIFOLatencyMeasurer("w", slots_number=slots, max_latency=maxlat, max_start_count=ms, max_stop_count=mp)
    circ = SimpleTestCircuit(dut)
    sim = PysimSimulator(circ, max_cycles=cycles + 10)
    _attach(sim, case)
    h = dut.histogram
    st = fresh(h)
    q = collections.deque()

    async def drv(ctx):
        trig = ctx.tick().sample(circ.start[0].adapter.done, circ.stop[0].adapter.done, *regs_of(h))
        log = collections.deque(maxlen=8)
        for cyc in range(cycles):
            # never stop more than started (documented correct use); bound the start rate by the stop rate so that the
            # oldest event never ages beyond max_latency (a harness lesson from the prototype)
            backlog = len(q)
            urgent = bool(q) and cyc - q[0] >= maxlat - 2 - (backlog // mp)
            sc = 0 if urgent or backlog + ms > min(slots, (maxlat // 2) * mp // 2 + 1) else rnd.randint(0, ms)
            pc = rnd.randint(0, min(mp, len(q)))
            if urgent:
                pc = min(mp, len(q))
            ctx.set(circ.start[0].adapter.en, rnd.random() < 0.6)
            ctx.set(circ.start[0].adapter.data_in, {"count": sc})
            ctx.set(circ.stop[0].adapter.en, urgent or rnd.random() < 0.5)
            ctx.set(circ.stop[0].adapter.data_in, {"count": pc})
            _, _, d_s, d_p, *got = await trig
            log.append({"cycle": cyc, "start": [int(d_s), sc], "stop": [int(d_p), pc], "open_events": list(q)})
            if not compare(rec, got, st, case, log, 0):
                return
            samples = []
            if d_p:
                for _ in range(pc):
                    samples.append(cyc - q.popleft())
            if d_s:
                q.extend([cyc] * sc)
            for s in samples:
                rec.count("samples")
                if not rec.check("harness_keeps_latency_within_max", s <= maxlat, case=case, detail=list(log)):
                    rec.harness_error(f"wide latency harness produced latency {s} > {maxlat}")
                    return
                rec.nontrivial(f"wide|ms{ms}mp{mp}|lat_bucket{min(s.bit_length(), 9)}|n{len(samples)}")
            if len(samples) > 1:
                rec.count("multi_sample_stops")
            hist_update(st, samples, h.bucket_count)
            rec.count("cycles")

    sim.add_testbench(drv)
    sim.run()


def run_tagged(rec, rnd, cycles, case):
    slots, maxlat, ways = case["slots"], case["max_latency"], case["ways"]
    dut = TaggedLatencyMeasurer("t", slots_number=slots, max_latency=maxlat, ways=ways)
    circ = SimpleTestCircuit(dut)
    sim = PysimSimulator(circ, max_cycles=cycles + 10)
    _attach(sim, case)
    h = dut.histogram
    st = fresh(h)
    taken: dict[int, int] = {}

    async def drv(ctx):
        trig = ctx.tick().sample(*[io.adapter.done for io in circ.start], *[io.adapter.done for io in circ.stop], *regs_of(h))
        log = collections.deque(maxlen=8)
        deadline: dict[int, int] = {}  # slot -> cycle in which its stop is requested (latency chosen at start: 30% exactly max_latency)
        for cyc in range(cycles):
            free = [s for s in range(slots) if s not in taken]
            rnd.shuffle(free)
            due = sorted((s for s in taken if deadline[s] <= cyc), key=lambda s: deadline[s])
            sa, pa, plan_lat = [], [], []
            load = collections.Counter(deadline.values())  # stop requests already planned per cycle (at most `ways` fit into one cycle)
            for k in range(ways):
                s_ = free.pop() if free else None
                lat = maxlat if rnd.random() < 0.3 else rnd.randint(1, maxlat)
                while lat >= 1 and load[cyc + lat] >= ways:
                    lat -= 1
                if lat < 1:
                    s_ = None  # no stop port free in any admissible cycle: do not start an event now
                start_en = s_ is not None and rnd.random() < 0.5
                if start_en:
                    load[cyc + lat] += 1
                sa.append(s_)
                plan_lat.append(lat)
                ctx.set(circ.start[k].adapter.en, start_en)
                ctx.set(circ.start[k].adapter.data_in, {"slot": s_ or 0})
                p_ = due.pop(0) if due else None
                pa.append(p_)
                ctx.set(circ.stop[k].adapter.en, p_ is not None)
                ctx.set(circ.stop[k].adapter.data_in, {"slot": p_ or 0})
            _, _, *v = await trig
            got = v[2 * ways:]
            log.append({"cycle": cyc, "start(slot,done)": [[sa[k], int(v[k])] for k in range(ways)], "stop(slot,done)": [[pa[k], int(v[ways + k])] for k in range(ways)],
                        "open(slot:start)": dict(taken)})
            if not compare(rec, got, st, case, log, 0):
                return
            samples = []
            for k in range(ways):
                if v[ways + k]:
                    samples.append(cyc - taken.pop(pa[k]))
            for k in range(ways):
                if v[k]:
                    taken[sa[k]] = cyc
                    deadline[sa[k]] = cyc + plan_lat[k]
            for s_ in list(deadline):
                if s_ not in taken:
                    del deadline[s_]
            for s in samples:
                rec.count("samples")
                if s == maxlat:
                    rec.count("samples_at_max_latency")
                rec.check("harness:latency_within_max_latency", s <= maxlat, case=case, detail={"latency": s, "max_latency": maxlat}) if s > maxlat else None
                rec.nontrivial(f"tagged|slots{slots}|lat_bucket{min(s.bit_length(), 9)}|ways{ways}")
            if len(samples) > 1:
                rec.count("multi_sample_stops")
            hist_update(st, samples, h.bucket_count)
            rec.count("cycles")

    sim.add_testbench(drv)
    sim.run()


def shards(tier, seed):
    n = 72 if tier == "quick" else 2400
    per = 3 if tier == "quick" else 20
    return [{"seed": seed, "first": i, "n": per, "cycles": 400 if tier == "quick" else 1200} for i in range(0, n, per)]


def run_shard(spec, rec):
    for i in range(spec["first"], spec["first"] + spec["n"]):
        rnd = random.Random(f"C32:{spec['seed']}:{i}")
        kind = ["fifo", "wide", "tagged"][i % 3]
        if kind == "fifo":
            case = {"measurer": "FIFOLatencyMeasurer", "slots": rnd.randint(1, 8), "max_latency": rnd.choice([3, 4, 7, 8, 15, 16, 64, 100]), "ways": rnd.randint(1, 3)}
        elif kind == "wide":
            ms, mp = rnd.randint(1, 3), rnd.randint(1, 3)
            case = {"measurer": "WideFIFOLatencyMeasurer", "slots": max(ms, mp) * rnd.randint(1, 3), "max_latency": rnd.choice([15, 16, 31, 32, 100]),
                    "max_start_count": ms, "max_stop_count": mp}
        else:
            case = {"measurer": "TaggedLatencyMeasurer", "slots": rnd.randint(1, 8), "max_latency": rnd.choice([4, 7, 8, 15, 16, 64, 100]), "ways": rnd.randint(1, 3)}
        case["history"] = i
        with DependencyContext(DependencyManager()):
            DependencyContext.get().add_dependency(HwMetricsEnabledKey(), True)
            try:
                {"fifo": run_fifo, "wide": run_wide, "tagged": run_tagged}[kind](rec, rnd, spec["cycles"], case)
            except Exception:
                if not rec.viol_total:
                    rec.check("constructs_and_simulates", False, case=case, detail=traceback.format_exc()[-1200:])
        rec.count("histories")
        rec.count("configs:" + case["measurer"])
        if len(rec.samples) < 2:
            rec.sample(case)


RULE = ("FIFOLatencyMeasurer (slots 1-8, max_latency 3/7/15/100, ways 1-3), WideFIFOLatencyMeasurer (start/stop counts 1-3, slots a multiple of them) and "
        "TaggedLatencyMeasurer (slots 1-8, ways 1-3, stops in and out of start order); start/stop histories with bursts; the stimulus keeps every latency "
        "<= max_latency and respects slot discipline; the histogram registers (count, sum, min, max, buckets) are compared every cycle with a model fed "
        "with stop_cycle - start_cycle of exactly the events observed to execute; distinct non-trivial case = (measurer, configuration class, latency "
        "magnitude class, samples per cycle)")
ASSUMPTIONS = ["latencies stay within max_latency and slots are used correctly (documented preconditions, enforced by the stimulus)"]
MINIMA = {"quick": {"cycles": 15000, "samples": 4000, "multi_sample_stops": 300, "distinct": 60}, "thorough": {"cycles": 1500000, "distinct": 150}}
