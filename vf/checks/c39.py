"""C39 - RoundRobin arbiters grant fairly."""

from __future__ import annotations

import random

from amaranth import Module, Signal
from amaranth.sim import Simulator
from transactron.utils.amaranth_ext.elaboratables import OneHotRoundRobin, RoundRobin

ENGINE = "compmon"
TECHNIQUE = "runtime monitoring: per-cycle invariant monitor on the arbiter's request/grant/valid signals under adversarial request histories"


def patterns(rnd, count, cycles):
    """Yield request vectors. Victim-based adversarial patterns plus random ones."""
    kind = rnd.choice(["random", "all", "victim_rotating", "victim_after_pointer", "bursty", "victim_random", "sparse"])
    victim = rnd.randrange(count)
    p = rnd.choice([0.2, 0.5, 0.8])
    state = {"last_grant": 0}
    full = (1 << count) - 1

    def gen(t):
        if kind == "random":
            return rnd.getrandbits(count)
        if kind == "all":
            return full
        if kind == "victim_rotating":
            return (1 << victim) | (1 << (t % count))
        if kind == "victim_after_pointer":
            # everyone between the current grant and the victim requests: the victim waits as long as possible
            return full if rnd.random() < 0.9 else (1 << victim)
        if kind == "bursty":
            return full if (t // rnd.choice([3, 5, 8])) % 2 == 0 else (1 << victim if rnd.random() < 0.5 else 0)
        if kind == "victim_random":
            return (1 << victim) | rnd.getrandbits(count)
        return sum(1 << i for i in range(count) if rnd.random() < 0.1)
    return kind, gen


def run_onehot(rec, rnd, count, cycles, case):
    dut = OneHotRoundRobin(count)
    m = Module()
    m.submodules.dut = dut
    keep = Signal()  # the sync domain exists even if the arbiter under test registers nothing
    m.d.sync += keep.eq(~keep)
    sim = Simulator(m)
    sim.add_clock(1e-6)
    kind, gen = patterns(rnd, count, cycles)
    case = dict(case, pattern=kind)
    wait = [0] * count
    cur = [gen]

    async def tb(ctx):
        trig = ctx.tick().sample(dut.grant, dut.valid)
        hist = []
        for t in range(cycles):
            if t % 50 == 49:
                cur[0] = patterns(rnd, count, cycles)[1]
            req = cur[0](t) & ((1 << count) - 1)
            ctx.set(dut.requests, req)
            _, _, grant, valid = await trig
            hist.append((req, grant, valid))
            del hist[:-10]
            det = {"last_cycles(requests,grant,valid)": hist[-8:]}
            rec.check("onehot:valid_iff_any_request", bool(valid) == (req != 0), case=case, detail=det)
            if req:
                rec.check("onehot:grant_one_hot_subset_of_requests", grant != 0 and grant & (grant - 1) == 0 and (grant & req) == grant, case=case, detail=det)
                rec.state(f"oh{count}:{req}:{grant}")
            eff = grant if valid else 0
            for j in range(count):
                if req >> j & 1:
                    if eff >> j & 1:
                        if wait[j] == count - 1 and count > 1:
                            rec.count("max_wait_windows")
                        wait[j] = 0
                    else:
                        wait[j] += 1
                        rec.check("onehot:served_within_count_cycles", wait[j] <= count - 1, case=case, detail=dict(det, requester=j, waited=wait[j]))
                else:
                    wait[j] = 0
            if rec.viol_total:
                return
            rec.count("cycles")

    sim.add_testbench(tb)
    sim.run()
    rec.nontrivial(f"onehot|{count}|{kind}")


def run_binary(rec, rnd, count, cycles, case):
    dut = RoundRobin(count=count)
    m = Module()
    m.submodules.dut = dut
    keep = Signal()  # the sync domain exists even if the arbiter under test registers nothing
    m.d.sync += keep.eq(~keep)
    sim = Simulator(m)
    sim.add_clock(1e-6)
    kind, gen = patterns(rnd, count, cycles)
    case = dict(case, pattern=kind)
    streak = [0] * count  # consecutive requesting cycles not yet served
    cur = [gen]

    async def tb(ctx):
        hist = []
        prev_req = None
        for t in range(cycles):
            if t % 50 == 49:
                cur[0] = patterns(rnd, count, cycles)[1]
            req = cur[0](t) & ((1 << count) - 1)
            # observe registered outputs produced by the previous cycle's requests, then apply the new requests
            grant, valid = ctx.get(dut.grant), ctx.get(dut.valid)
            if prev_req is not None:
                hist.append((prev_req, grant, valid))
                del hist[:-10]
                det = {"last(requests(t-1),grant(t),valid(t))": hist[-8:]}
                rec.check("binary:valid_is_registered_any_request", bool(valid) == (prev_req != 0), case=case, detail=det)
                if valid:
                    rec.check("binary:grant_designates_active_requester", grant < count and bool(prev_req >> grant & 1), case=case, detail=det)
                    rec.state(f"bin{count}:{prev_req}:{grant}")
                for j in range(count):
                    if prev_req >> j & 1:
                        if valid and grant == j:
                            if streak[j] == count - 1 and count > 1:
                                rec.count("max_wait_windows")
                            streak[j] = 0
                        else:
                            streak[j] += 1
                            rec.check("binary:served_within_count_cycles", streak[j] <= count - 1, case=case, detail=dict(det, requester=j, waited=streak[j]))
                    else:
                        streak[j] = 0
                if rec.viol_total:
                    return
                rec.count("cycles")
            ctx.set(dut.requests, req)
            prev_req = req
            await ctx.tick()

    sim.add_testbench(tb)
    sim.run()
    rec.nontrivial(f"binary|{count}|{kind}")


def shards(tier, seed):
    hist = 6 if tier == "quick" else 60
    parts = 1 if tier == "quick" else 4  # thorough: 4 shards of 60 histories per count
    return [{"seed": seed, "count": c, "hist": hist, "part": p, "cycles": 300 if tier == "quick" else 1500} for c in range(1, 9) for p in range(parts)] + \
           [{"seed": seed, "count": c, "hist": hist // 2, "part": p, "cycles": 400 if tier == "quick" else 2000} for c in ((12, 16) if tier == "quick" else (9, 10, 12, 16, 24, 32)) for p in range(parts)]


def run_shard(spec, rec):
    c = spec["count"]
    for h in range(spec.get("part", 0) * spec["hist"], (spec.get("part", 0) + 1) * spec["hist"]):
        rnd = random.Random(f"C39:{spec['seed']}:{c}:{h}")
        run_onehot(rec, rnd, c, spec["cycles"], {"arbiter": "OneHotRoundRobin", "count": c, "history": h})
        run_binary(rec, rnd, c, spec["cycles"], {"arbiter": "RoundRobin", "count": c, "history": h})
    rec.sample({"count": c, "histories": spec["hist"], "cycles_each": spec["cycles"], "patterns": sorted(rec.distinct)[:8]})


def exhaustive(merged, tier):
    return False


RULE = ("request histories (random, all-requesting, victim always requesting with rotating / everyone-else / random competitors, bursty, sparse; pattern "
        "re-drawn every 50 cycles) for count 1..8, 12, 16 on OneHotRoundRobin and RoundRobin from reset; distinct non-trivial case = (arbiter, count, "
        "pattern); distinct_states counts the (requests, grant) pairs observed; max_wait_windows counts requesters that waited the maximal count-1 cycles")
ASSUMPTIONS = ["when valid is low the raw OneHotRoundRobin grant vector is not constrained (the effective grant is grant masked by valid)",
               "RoundRobin is registered: valid/grant of cycle t+1 are compared with the requests of cycle t"]
MINIMA = {"quick": {"cycles": 20000, "max_wait_windows": 200, "cond:onehot:grant_one_hot_subset_of_requests": 5000,
                    "cond:binary:grant_designates_active_requester": 5000, "distinct": 30},
          "thorough": {"cycles": 500000, "max_wait_windows": 5000}}
