"""C41 - data helpers are correct."""

from __future__ import annotations

import copy
import random
import traceback

from amaranth import Module, Signal, Shape, signed, unsigned
from amaranth.lib import data
from amaranth.sim import Simulator
from transactron.utils.amaranth_ext.data import transpose, transpose_layout, transpose_layout_with_keys, layout_keys
from transactron.utils.data_repr import (
    signed_to_int, int_to_signed, neg, align_to_power_of_two, align_down_to_power_of_two, make_hashable, bits_from_int,
)

ENGINE = "pymon"
EVALUATIONS = "evaluations"
TECHNIQUE = "runtime monitoring: postcondition monitors on the real helper functions over exhaustive small and random larger inputs"


def rnd_leaf(rnd):
    r = rnd.random()
    if r < 0.7:
        return unsigned(rnd.randint(1, 6))
    if r < 0.85:
        return signed(rnd.randint(1, 6))
    return data.StructLayout({"p": rnd.randint(1, 3), "q": rnd.randint(1, 3)})


def rnd_two_level(rnd):
    okind, ikind = rnd.choice("sa"), rnd.choice("sa")
    on, inn = rnd.randint(1, 4), rnd.randint(1, 4)
    ikeys = [f"i{k}" for k in rnd.sample(range(6), inn)] if ikind == "s" else list(range(inn))
    okeys = [f"o{k}" for k in rnd.sample(range(6), on)] if okind == "s" else list(range(on))
    if okind == "a":
        # all outer elements share one inner layout
        if ikind == "a":
            inner = data.ArrayLayout(rnd_leaf(rnd), inn)
        else:
            inner = data.StructLayout({k: rnd_leaf(rnd) for k in ikeys})
        return data.ArrayLayout(inner, on), okeys, ikeys
    members = {}
    for ok in okeys:
        if ikind == "a":
            members[ok] = data.ArrayLayout(rnd_leaf(rnd), inn)
        else:
            members[ok] = data.StructLayout({k: rnd_leaf(rnd) for k in ikeys})
    return data.StructLayout(members), okeys, ikeys


def chk_transpose(rec, rnd, n):
    for c in range(n):
        lay, okeys, ikeys = rnd_two_level(rnd)
        case = {"layout": repr(lay)}
        w = Shape.cast(lay).width
        try:
            tl, ok2, ik2 = transpose_layout_with_keys(lay)
        except ValueError as e:
            # struct-of-arrays with different element shapes is fine; only genuinely ill-formed layouts may raise
            rec.check("transpose_layout_accepts_well_formed", False, case=case, detail=repr(e))
            continue
        rec.check("transpose_layout_accepts_well_formed", True)
        rec.check("transpose_layout_keys", list(ok2) == okeys and list(ik2) == ikeys and list(layout_keys(tl)) == ikeys, case=case,
                  detail={"o_keys": list(ok2), "i_keys": list(ik2)})
        try:
            back = transpose_layout(tl)
            rec.check("transpose_layout_involution", back == lay, case=case, detail=repr(back))
        except ValueError as e:
            rec.check("transpose_layout_involution", False, case=case, detail=repr(e))
        try:
            val = rnd.getrandbits(w)
            const = lay.from_bits(val)
            tc = transpose(const)
            ok = all(tc[i][o] == const[o][i] for o in okeys for i in ikeys)
            rec.check("transpose_const_swaps_levels", ok and isinstance(tc, data.Const), case=case, detail={"value": val})
            rec.check("transpose_const_involution", transpose(tc) == const, case=case, detail={"value": val})
            # views: evaluate in simulation
            sig = Signal(lay)
            tv = transpose(sig)
            m = Module()
            probes = []
            for o in okeys:
                for i in ikeys:
                    a = Signal(Shape.cast(lay[o].shape[i].shape).width, name="a")
                    b = Signal(Shape.cast(lay[o].shape[i].shape).width, name="b")
                    m.d.comb += [a.eq(sig[o][i]), b.eq(tv[i][o])]
                    probes.append((o, i, a, b))
            bb = Signal(w)
            m.d.comb += bb.eq(transpose(tv).as_value())
            sim = Simulator(m)
            out = {}

            async def tb(ctx):
                ctx.set(sig.as_value(), val)
                out["pairs"] = [(o, i, ctx.get(a), ctx.get(b)) for o, i, a, b in probes]
                out["back"] = ctx.get(bb)

            sim.add_testbench(tb)
            sim.run()
            bad = [(o, i, a, b) for o, i, a, b in out["pairs"] if a != b]
            rec.check("transpose_view_swaps_levels", not bad and tv.shape() == tl, case=case, detail={"value": val, "mismatch": bad[:3]})
            rec.check("transpose_view_involution", out["back"] == val, case=case, detail={"value": val, "back": out["back"]})
        except Exception:
            # transpose is total on well-formed layouts: an exception here is an observable misbehaviour of the helper, not a harness problem
            rec.check("transpose_evaluates_on_well_formed_layout", False, case=case, detail=traceback.format_exc()[-900:])
            continue
        rec.check("transpose_evaluates_on_well_formed_layout", True)
        rec.count("evaluations", 6)
        rec.nontrivial(f"transpose|{type(lay).__name__}|{len(okeys)}x{len(ikeys)}|{'s' if isinstance(ikeys[0], str) else 'a'}")
        if len(rec.samples) < 2:
            rec.sample({"layout": repr(lay), "value": val})
    # ill-formed layouts must raise ValueError
    bad_layouts = [
        data.StructLayout({}), data.StructLayout({"a": 3}), data.ArrayLayout(4, 2),
        data.StructLayout({"a": data.StructLayout({"x": 1}), "b": data.StructLayout({"y": 1})}),
        data.StructLayout({"a": data.StructLayout({"x": 1}), "b": data.StructLayout({"x": 1, "y": 1})}),
        data.StructLayout({"a": data.ArrayLayout(2, 2), "b": data.ArrayLayout(2, 3)}),
        data.StructLayout({"a": data.StructLayout({})}), data.StructLayout({"a": data.StructLayout({"x": 1}), "b": 2}),
        data.UnionLayout({"a": data.StructLayout({"x": 1})}),
        data.StructLayout({"a": data.StructLayout({"x": 1, "y": 1}), "b": data.StructLayout({"y": 1, "x": 1})}),
    ]
    for bl in bad_layouts:
        try:
            transpose_layout(bl)
            rec.check("transpose_layout_rejects_ill_formed", False, case={"layout": repr(bl)}, detail="no exception")
        except ValueError:
            rec.check("transpose_layout_rejects_ill_formed", True)
        rec.count("evaluations")


def chk_ints(rec, rnd, tier):
    top = 10 if tier == "quick" else 13
    for w in range(1, top + 1):
        lo, hi = -(1 << (w - 1)), (1 << (w - 1)) - 1
        for x in range(lo, hi + 1):
            u = int_to_signed(x, w)
            rec.check("int_to_signed_in_range", 0 <= u < (1 << w), case={"x": x, "w": w}, detail=u)
            rec.check("signed_roundtrip", signed_to_int(u, w) == x, case={"x": x, "w": w}, detail={"u2": u, "back": signed_to_int(u, w)})
            rec.check("neg_is_u2_negation", neg(u, w) == int_to_signed(-x, w), case={"x": x, "w": w}, detail=neg(u, w))
        for u in range(1 << w):
            s = signed_to_int(u, w)
            rec.check("unsigned_roundtrip", lo <= s <= hi and int_to_signed(s, w) == u, case={"u": u, "w": w}, detail=s)
        rec.count("evaluations", 2 << w)
        rec.nontrivial(f"ints|w{w}")
    for _ in range(300 if tier == "quick" else 5000):
        w = rnd.randint(11, 70)
        x = rnd.randint(-(1 << (w - 1)), (1 << (w - 1)) - 1)
        rec.check("signed_roundtrip", signed_to_int(int_to_signed(x, w), w) == x, case={"x": x, "w": w})
        lo_, ln = rnd.randint(0, w - 1), rnd.randint(1, 8)
        rec.check("bits_from_int", bits_from_int(int_to_signed(x, w), lo_, ln) == int("0" + bin(int_to_signed(x, w) + (1 << 80))[2:][::-1][lo_:lo_ + ln][::-1], 2),
                  case={"x": x, "lower": lo_, "length": ln})
        rec.count("evaluations", 2)
    rec.nontrivial("ints|wide")


def chk_align(rec, rnd, tier):
    for p in range(0, 7):
        step = 1 << p
        for num in list(range(-70, 260)) + [rnd.randrange(1 << 40) for _ in range(50)]:
            up, down = align_to_power_of_two(num, p), align_down_to_power_of_two(num, p)
            rec.check("align_up", up % step == 0 and up >= num and up - num < step, case={"num": num, "power": p}, detail=up)
            rec.check("align_down", down % step == 0 and down <= num and num - down < step, case={"num": num, "power": p}, detail=down)
            rec.count("evaluations", 2)
        rec.nontrivial(f"align|p{p}")


def rnd_value(rnd, depth=0):
    r = rnd.random()
    if depth >= 3 or r < 0.35:
        return rnd.choice([rnd.randrange(5), str(rnd.randrange(3)), None, (1, 2), rnd.random() < 0.5, frozenset([1])])
    if r < 0.6:
        return [rnd_value(rnd, depth + 1) for _ in range(rnd.randint(0, 3))]
    if r < 0.85:
        return {rnd.choice(["a", "b", "c", 1, 2]): rnd_value(rnd, depth + 1) for _ in range(rnd.randint(0, 3))}
    return tuple(rnd_value(rnd, depth + 1) for _ in range(rnd.randint(0, 2)))


def perturb(rnd, v):
    """A same-typed value that is unequal to v (or None if none can be made)."""
    if isinstance(v, list):
        return v + [rnd_value(rnd, 3)]
    if isinstance(v, dict):
        d = dict(v)
        d["zz"] = 7
        return d
    if isinstance(v, tuple):
        return v + (9,)
    return None


def chk_hashable(rec, rnd, tier):
    for _ in range(600 if tier == "quick" else 20000):
        v = rnd_value(rnd)
        v2 = copy.deepcopy(v)
        case = {"value": repr(v)[:200]}
        try:
            h1, h2 = make_hashable(v), make_hashable(v2)
            hash(h1)
        except TypeError as e:
            rec.check("make_hashable_returns_hashable", False, case=case, detail=repr(e))
            continue
        rec.check("make_hashable_returns_hashable", True)
        rec.check("equal_inputs_give_equal_outputs", h1 == h2 and hash(h1) == hash(h2), case=case)
        if isinstance(v, dict) and len(v) > 1:
            rev = dict(reversed(list(v.items())))
            rec.check("dict_order_irrelevant", make_hashable(rev) == h1, case=case)
        w = perturb(rnd, v)
        if w is not None and w != v:
            rec.check("unequal_inputs_give_unequal_outputs", make_hashable(w) != h1, case=dict(case, other=repr(w)[:200]))
        rec.count("evaluations", 3)
    rec.nontrivial("make_hashable")


def shards(tier, seed):
    n = 4 if tier == "quick" else 64
    out = [{"kind": "transpose", "seed": seed, "part": i, "n": 40 if tier == "quick" else 600, "tier": tier} for i in range(n)]
    out += [{"kind": k, "seed": seed, "part": p, "tier": tier} for k in ("ints", "align", "hashable") for p in range(1 if tier == "quick" else 12)]
    return out


def run_shard(spec, rec):
    rnd = random.Random(f"C41:{spec['seed']}:{spec['kind']}:{spec['part']}")
    if spec["kind"] == "transpose":
        chk_transpose(rec, rnd, spec["n"])
    elif spec["kind"] == "ints":
        chk_ints(rec, rnd, spec["tier"])
    elif spec["kind"] == "align":
        chk_align(rec, rnd, spec["tier"])
    else:
        chk_hashable(rec, rnd, spec["tier"])


RULE = ("transpose/transpose_layout on random two-level layouts (struct|array x struct|array, 1-4 keys per level, unsigned/signed/struct leaves) as Const "
        "and as View (evaluated in simulation) incl. double transposition, ten ill-formed layouts that must raise ValueError; signed_to_int/int_to_signed/"
        "neg exhaustively for widths 1..10 (1..13 thorough) and random wider; align_* for -70..259 and random 40-bit numbers x powers 0..6 against the "
        "arithmetic definition; make_hashable on random nested dict/list/tuple values (equal copies, reordered dicts, perturbed unequal values); "
        "distinct non-trivial case = helper x shape class (layout kinds and sizes / width / power)")
ASSUMPTIONS = ["layout equality as defined by amaranth.lib.data"]
MINIMA = {"quick": {"evaluations": 5000, "cond:transpose_view_swaps_levels": 100, "cond:signed_roundtrip": 1000, "cond:align_up": 1000,
                    "cond:unequal_inputs_give_unequal_outputs": 100, "distinct": 20}, "thorough": {"evaluations": 60000, "distinct": 30}}
