"""C21 - MemoryBank returns what an ideal memory holds."""

import amaranth.lib.memory as amem
from transactron.lib.storage import MemoryBank
from transactron.utils.amaranth_ext.memory import MultiReadMemory, MultiportXORMemory, MultiportXORILVTMemory, MultiportOneHotILVTMemory

from ..comp.common import ComponentCheck
from ..comp.models import MemBankM

MEMS = {"Memory": amem.Memory, "MultiRead": MultiReadMemory, "XOR": MultiportXORMemory, "XORILVT": MultiportXORILVTMemory, "OneHotILVT": MultiportOneHotILVTMemory}


def pick(rnd, i):
    tr, ror = bool(i & 1), bool(i & 2)
    # Memory back end for three quarters of the budget (every mode every run), the multiport back ends rotate through the rest
    mt = "Memory" if (i // 4) % 4 != 3 else ["MultiRead", "XOR", "XORILVT", "OneHotILVT"][(i // 16) % 4]
    width = rnd.choice([8, 8, 4, 6])
    gran = None
    if mt in ("Memory", "MultiRead") and rnd.random() < 0.5:
        gran = rnd.choice([g for g in (1, 2, 3, 4) if width % g == 0 and g < width])
    depth = rnd.choice([2, 4, 5, 8])
    rp = rnd.randint(1, 3)
    wp = 1 if mt == "MultiRead" else rnd.randint(1, min(3, depth))
    struct = gran is None and mt == "Memory" and width % 2 == 0 and rnd.random() < 0.3
    # array rows: the granularity then counts ELEMENTS (a quarter of the Memory / MultiRead configurations)
    elem = None
    if mt in ("Memory", "MultiRead") and not struct and rnd.random() < 0.25:
        elem = (rnd.choice([2, 3, 8]), rnd.choice([2, 4]))
        width = elem[0] * elem[1]
        gran = rnd.choice([None, 1, 2] if elem[1] == 4 else [None, 1])  # in elements
    case = {"kind": f"MemoryBank[{mt}]", "transparent": tr, "read_on_resp": ror, "granularity": gran, "width": width, "depth": depth,
            "read_ports": rp, "write_ports": wp, "struct_shape": struct, "array_row(element_width,count)": elem}

    def make(r):
        from amaranth.lib.data import ArrayLayout, StructLayout
        shape = ArrayLayout(elem[0], elem[1]) if elem else StructLayout({"lo": width // 2, "hi": width // 2}) if struct else width
        dut = MemoryBank(shape=shape, depth=depth, granularity=gran, transparent=tr, read_on_resp=ror, read_ports=rp, write_ports=wp, memory_type=MEMS[mt])
        bit_gran = gran * elem[0] if (elem and gran is not None) else gran
        return dut, MemBankM(depth, width, rp, wp, tr, ror, bit_gran, struct="array" if elem else struct, elem=elem)

    return case, make, ""


CHECK = ComponentCheck("C21", pick, tiers={"quick": (96, 300), "thorough": (3200, 1200)}, drain=6)
shards, run_shard = CHECK.shards, CHECK.run_shard
RULE = ("[in 30% of the histories every provided exclusive method has a second, competing caller transaction: a request is issued by the main caller, the rival or both; condition exclusive_method_serves_at_most_one_caller_per_cycle] histories = hostile random read_req/read_resp/write sequences over transparent x read_on_resp (all four modes every run) x granularity {None, "
        "divisors of the width; for array rows (a quarter of the Memory/MultiRead configurations) the granularity counts elements} x 1-3 read ports x 1-3 write ports x depth {2,4,5,8} x memory_type {Memory (3/4 of the budget), MultiRead, XOR, XORILVT, "
        "OneHotILVT}; half of the cycles aim a write at the address of a pending response; two write ports never address one row; a response is "
        "compared with an ideal memory at request time (or response time with read_on_resp), same-cycle writes counted exactly when transparent; "
        "distinct non-trivial case = (mode, granularity, port counts, tags among write-hits-pending / partial-mask / write+request same row / overflow "
        "buffer occupied)")
ASSUMPTIONS = ["no two write ports address the same row in one cycle", "ILVT back ends are only combined with granularity None (open finding of C23 otherwise)"]
MINIMA = {"quick": {"cycles": 10000, "calls:read_resp": 3000, "calls:write": 3000, "distinct": 60}, "thorough": {"cycles": 1000000, "distinct": 200}}
