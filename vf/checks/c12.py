"""C12 - condition() picks one admissible branch."""

from __future__ import annotations

import itertools
import random
import re
import traceback

from amaranth import Elaboratable, Module, Signal
from amaranth.hdl._ir import build_netlist
from amaranth.sim import Simulator
from transactron import Method, TModule, Transaction, TransactronContextElaboratable, def_method
from transactron.lib import condition
from transactron.utils.dependencies import DependencyContext, DependencyManager

ENGINE = "dgen+refsem"
TECHNIQUE = "runtime monitoring: generated condition() blocks with branch witnesses; per-cycle oracle over sampled branch witnesses, conditions, callee readiness and outside transactions"

KLASS_LOOP = "condition:conditionally_called_host_with_branch_calling_validated_method_loops"


def gen(rnd):
    D = {}
    D["nm"] = rnd.randint(2, 4)
    D["nonblocking"] = rnd.random() < 0.5
    D["priority"] = rnd.random() < 0.5
    D["nb"] = rnd.randint(1, 4)
    D["default"] = rnd.random() < 0.5
    D["in_method"] = rnd.random() < 0.5  # condition inside a method called by one transaction
    # how the host method is called: plainly, under If, with enable_call, or from TWO mutually exclusive call sites of the one transaction
    # (If/Else: always called by one of them; If/Elif: called iff one of two conditions holds)
    D["cond_call"] = rnd.choice([None, "if", "enable", "ifelse", "ifelif"]) if D["in_method"] else None
    # an intermediate method between the transaction and the host: the *outer* call is conditional, the call of the host is plain
    D["chain"] = D["in_method"] and rnd.random() < 0.4
    D["share"] = rnd.random() < 0.5  # outside transactions sharing callees
    nbr = D["nb"] + (1 if D["default"] else 0)
    br = [sorted(rnd.sample(range(D["nm"]), rnd.randint(0, min(2, D["nm"])))) for _ in range(nbr)]
    D["outer_calls"] = sorted(rnd.sample(range(D["nm"]), rnd.randint(0, 1)))  # called by the enclosing body outside the condition
    D["br"] = [[j for j in b if j not in D["outer_calls"]] for b in br]
    D["outside"] = [sorted(rnd.sample(range(D["nm"]), rnd.randint(1, 2))) for _ in range(rnd.randint(1, 2))] if D["share"] else []
    D["overlap"] = rnd.random() < 0.4  # conditions derived from shared inputs so that several are often true together
    # callees with validate_arguments: the argument (one bit per method, an input) must be 1 for the call to be accepted
    D["validated"] = [rnd.random() < 0.3 for _ in range(D["nm"])]
    # one of the methods called from a branch contains a condition() of its own (a nonblocking one with one branch that calls a leaf method)
    called_in_branches = sorted({j for b in D["br"] for j in b})
    D["callee_cond"] = rnd.choice(called_in_branches) if called_in_branches and rnd.random() < 0.35 else None
    # a nested condition() inside one (non-default) branch, with its own conditions, callees and flags
    D["nested"] = None
    if rnd.random() < 0.35:
        i = rnd.randrange(D["nb"])
        if rnd.random() < 0.5:
            D["br"][i] = []  # the enclosing branch calls nothing itself
        free = [j for j in range(D["nm"]) if j not in D["br"][i] and j not in D["outer_calls"]]
        nb2 = rnd.randint(1, 2)
        default2 = rnd.random() < 0.5
        D["nested"] = {"branch": i, "nb": nb2, "default": default2, "nonblocking": rnd.random() < 0.5, "priority": rnd.random() < 0.5,
                       "br": [sorted(rnd.sample(free, rnd.randint(0, min(2, len(free))))) for _ in range(nb2 + (1 if default2 else 0))]}
    if rnd.random() < 0.15:
        # forced class: a conditionally called host whose branch calls nothing itself and nests a condition(); a nested branch calls a method
        # that contains a condition() of its own - the conditional-call status has to reach that innermost block through two levels of nesting
        free = [j for j in range(D["nm"]) if j not in D["outer_calls"]]
        if free:
            D["in_method"] = True
            D["cond_call"] = rnd.choice(["if", "enable", "ifelif"])
            D["chain"] = rnd.random() < 0.5
            i_ = rnd.randrange(D["nb"])
            D["br"][i_] = []
            j_ = rnd.choice(free)
            nb2 = rnd.randint(1, 2)
            D["nested"] = {"branch": i_, "nb": nb2, "default": False, "nonblocking": rnd.random() < 0.5, "priority": False,
                           "br": [[j_]] + [[j_] if rnd.random() < 0.5 else [] for _ in range(nb2 - 1)]}
            D["callee_cond"] = j_
            D["forced_deep_callee_condition"] = True
    return D


class Emit(Elaboratable):
    def __init__(self, D):
        self.D = D
        self.cond = [Signal(name=f"c{i}") for i in range(D["nb"])]
        self.mr = [Signal(name=f"mr{i}") for i in range(D["nm"])]
        self.pr, self.tr, self.cc, self.cc2 = Signal(name="pr"), Signal(name="tr"), Signal(name="cc"), Signal(name="cc2")
        self.orr = [Signal(name=f"or{i}") for i in range(len(D["outside"]))]
        self.bw = [Signal(name=f"bw{i}") for i in range(len(D["br"]))]
        self.pw = Signal(name="pw")
        self.va = [Signal(name=f"va{i}") for i in range(D["nm"])]
        self.kc, self.kw, self.leaf_ready = Signal(name="kc"), Signal(name="kw"), Signal(name="leaf_ready")
        N = D.get("nested")
        self.cond2 = [Signal(name=f"d{i}") for i in range(N["nb"])] if N else []
        self.bw2 = [Signal(name=f"bx{i}") for i in range(len(N["br"]))] if N else []

    def elaborate(self, platform):
        m = TModule()
        D = self.D
        V = D.get("validated") or [False] * D["nm"]
        N = D.get("nested")
        ms = self.ms = [Method(name=f"M{i}", i=[("a", 1)] if V[i] else []) for i in range(D["nm"])]
        KC = D.get("callee_cond")
        self.leaf = leaf = Method(name="leaf")

        @def_method(m, leaf, ready=self.leaf_ready)
        def _():
            pass

        def callee_body(i):
            if KC == i:
                with condition(m, nonblocking=True) as kbranch:
                    with kbranch(self.kc):
                        m.d.comb += self.kw.eq(1)
                        leaf(m)

        for i in range(D["nm"]):
            if V[i]:
                @def_method(m, ms[i], ready=self.mr[i], validate_arguments=lambda a: a)
                def _(a):
                    callee_body(i)
            else:
                @def_method(m, ms[i], ready=self.mr[i])
                def _():
                    callee_body(i)

        def call(j):
            if V[j]:
                ms[j](m, a=self.va[j])
            else:
                ms[j](m)

        def nested_block():
            with condition(m, nonblocking=N["nonblocking"], priority=N["priority"]) as branch:
                for k in range(N["nb"]):
                    with branch(self.cond2[k]):
                        for j in N["br"][k]:
                            call(j)
                        m.d.comb += self.bw2[k].eq(1)
                if N["default"]:
                    with branch():
                        for j in N["br"][N["nb"]]:
                            call(j)
                        m.d.comb += self.bw2[N["nb"]].eq(1)

        def block():
            m.d.comb += self.pw.eq(1)
            for j in D["outer_calls"]:
                call(j)
            with condition(m, nonblocking=D["nonblocking"], priority=D["priority"]) as branch:
                for i in range(D["nb"]):
                    with branch(self.cond[i]):
                        for j in D["br"][i]:
                            call(j)
                        m.d.comb += self.bw[i].eq(1)
                        if N and N["branch"] == i:
                            nested_block()
                if D["default"]:
                    with branch():
                        for j in D["br"][D["nb"]]:
                            call(j)
                        m.d.comb += self.bw[D["nb"]].eq(1)

        self.outs = []
        if D["in_method"]:
            host = Method(name="host")

            @def_method(m, host, ready=self.pr)
            def _():
                block()

            target = host
            if D["chain"]:
                outer = Method(name="outer")

                @def_method(m, outer)
                def _():
                    host(m)

                target = outer
            with (caller := Transaction(name="caller")).body(m, ready=self.tr):
                if D["cond_call"] == "if":
                    with m.If(self.cc):
                        target(m)
                elif D["cond_call"] == "enable":
                    target(m, enable_call=self.cc)
                elif D["cond_call"] == "ifelse":
                    with m.If(self.cc):
                        target(m)
                    with m.Else():
                        target(m)
                elif D["cond_call"] == "ifelif":
                    with m.If(self.cc):
                        target(m)
                    with m.Elif(self.cc2):
                        target(m)
                else:
                    target(m)
            self.P = host
            self.caller = caller
        else:
            with (t := Transaction(name="P")).body(m, ready=self.pr):
                block()
            self.P = t
        for k, calls in enumerate(D["outside"]):
            with (o := Transaction(name=f"O{k}")).body(m, ready=self.orr[k]):
                for j in calls:
                    call(j)
            self.outs.append(o)
        return m


def run_one(rec, rnd, idx, max_cycles):
    D = gen(rnd)
    case = {"design": idx, "ir": D}
    dm = DependencyManager()
    with DependencyContext(dm):
        e = Emit(D)
        top = TransactronContextElaboratable(e, dependency_manager=dm)
        wrap = Module()
        dummy = Signal()
        wrap.d.sync += dummy.eq(1)
        wrap.submodules.top = top
        try:
            sim = Simulator(wrap)
        except Exception:
            rec.check("C12:design_with_condition_elaborates", False, case=case, detail=traceback.format_exc()[-1200:])
            return
        rec.check("C12:design_with_condition_elaborates", True)
        N, V = D.get("nested"), D.get("validated") or [False] * D["nm"]
        cyc_klass = KLASS_LOOP if (D["cond_call"] and any(V[j] for b in D["br"] + (N["br"] if N else []) for j in b)) else ""
        try:
            build_netlist(sim._design)
            rec.check("C10:design_with_condition_has_no_combinational_cycle", True)
        except Exception as ex:
            # a design with a combinational cycle is not simulated (the simulator would not settle)
            rec.check("C10:design_with_condition_has_no_combinational_cycle", False, klass=cyc_klass, case=case, detail=str(ex)[:900])
            return
        sim.add_clock(1e-6)
        # the branch transactions created by condition() (after merging they are methods of the manager): observed directly, not through
        # a witness inside the body (which is gated by the host's own run)
        tm = top.transaction_manager
        host_name = e.P.name if hasattr(e.P, "name") else "P"
        branch_bodies, nested_bodies = [], []
        for obj in list(tm.methods) + list(tm.transactions):
            b = obj._body
            # exactly the bodies named "<host>_cond<k>"; merged transactions are named "<member>_<member>..." and are not branch bodies
            if re.fullmatch(rf"{re.escape(host_name)}_cond\d+", b.name) and not any(b is x for x in branch_bodies):
                branch_bodies.append(b)
            if re.fullmatch(rf"{re.escape(host_name)}_cond\d+_cond\d+", b.name) and not any(b is x for x in nested_bodies):
                nested_bodies.append(b)
        by_name = {b.name: b for b in branch_bodies}
        va_in = [e.va[j] for j in range(D["nm"]) if V[j]]
        inputs = e.cond + e.cond2 + e.mr + va_in + [e.pr, e.tr, e.cc] + ([e.cc2] if D["cond_call"] == "ifelif" else []) + ([e.kc, e.leaf_ready] if D.get("callee_cond") is not None else []) + e.orr
        n = len(inputs)
        nb = D["nb"]
        tag = (f"nb{nb}d{int(D['default'])}nbk{int(D['nonblocking'])}p{int(D['priority'])}m{int(D['in_method'])}{D['cond_call']}ch{int(D['chain'])}s{int(D['share'])}"
               f"v{int(any(V))}n{(str(N['nb']) + str(int(N['default'])) + str(int(N['nonblocking'])) + str(int(N['priority']))) if N else '-'}")
        if D.get("forced_deep_callee_condition"):
            rec.count("designs_with_condition_in_a_method_called_from_a_nested_branch")
        if N:
            rec.count("designs_with_nested_condition")
        if any(V):
            rec.count("designs_with_validated_callees")

        def callees_of_branch(i):
            return set(D["br"][i]) | (set(j for b in N["br"] for j in b) if N and N["branch"] == i else set())

        async def tb(ctx):
            if n <= 10:
                vals = list(itertools.product([0, 1], repeat=n))
                rnd.shuffle(vals)
                vals = vals[:max_cycles]
                rec.count("designs_with_exhaustive_valuations") if len(vals) == 1 << n else None
            else:
                p = [rnd.choice([0.3, 0.6, 0.9]) for _ in range(n)]
                vals = [[int(rnd.random() < p[i]) for i in range(n)] for _ in range(max_cycles)]
            for v in vals:
                v = list(v)
                if D["overlap"] and nb >= 2:
                    v[1] = v[0] if rnd.random() < 0.7 else v[1]  # make two conditions agree most of the time
                for s, x in zip(inputs, v):
                    ctx.set(s, x)
                c = [ctx.get(s) for s in e.cond]
                c2 = [ctx.get(s) for s in e.cond2]
                mr = [ctx.get(s) for s in e.mr]
                va = [ctx.get(s) for s in e.va]
                eff = [bool(mr[j]) and (bool(va[j]) or not V[j]) for j in range(D["nm"])]  # ready and, if validated, called with an accepted argument
                KC = D.get("callee_cond")
                if KC is not None:
                    # the callee's own nonblocking condition: when its condition holds, its branch (hence the leaf method) must be able to run
                    eff[KC] = eff[KC] and (not ctx.get(e.kc) or bool(ctx.get(e.leaf_ready)))
                bw = [ctx.get(s) for s in e.bw]
                bw2 = [ctx.get(s) for s in e.bw2]
                pw, prun = ctx.get(e.pw), ctx.get(e.P.run)
                oruns = [ctx.get(o.run) for o in e.outs]
                rec.count("cycles")
                det = {"inputs": {"cond": c, "nested_cond": c2, "method_ready": mr, "argument_valid": va, "pr": ctx.get(e.pr), "tr": ctx.get(e.tr), "cc": ctx.get(e.cc), "cc2": ctx.get(e.cc2)},
                       "branch_witness": bw, "nested_branch_witness": bw2, "body_run": int(prun), "outside_runs": oruns}
                if bool(pw) != bool(prun):
                    rec.harness_error("body witness differs from body run")
                condv = c + ([int(not any(c))] if D["default"] else [])
                nested_ok, adm2, condv2 = True, [], []
                if N:
                    condv2 = c2 + ([int(not any(c2))] if N["default"] else [])
                    adm2 = [bool(condv2[k]) and all(eff[j] for j in N["br"][k]) for k in range(len(N["br"]))]
                    nested_ok = any(adm2) or (N["nonblocking"] and not N["default"] and not any(c2))
                adm = [bool(condv[i]) and all(eff[j] for j in D["br"][i]) and (nested_ok if N and N["branch"] == i else True) for i in range(len(D["br"]))]

                def host_called():
                    cc, cc2 = bool(ctx.get(e.cc)), bool(ctx.get(e.cc2))
                    return {None: True, "if": cc, "enable": cc, "ifelse": True, "ifelif": cc or cc2}[D["cond_call"]]

                def excused(skipped_callees):
                    return any(orun and set(calls) & skipped_callees for orun, calls in zip(oruns, D["outside"]))

                rec.check("C12:at_most_one_branch_runs", sum(bw) <= 1, case=case, detail=det)
                nb_run = 0
                for bb in branch_bodies:
                    brun = ctx.get(bb.run)
                    nb_run += int(bool(brun))
                    rec.check("C03:nested_branch_transaction_runs_only_with_its_enclosing_body", not brun or bool(prun), case=case, detail=dict(det, branch_body=bb.name))
                    if brun:
                        rec.count("branch_body_run_cycles")
                # the body is declared simultaneous with its alternatives (every branch incl. the implicit one of a nonblocking condition is one)
                rec.check("C13:body_runs_in_exactly_the_cycles_in_which_one_of_its_simultaneous_alternatives_runs", nb_run == int(bool(prun)), case=case,
                          detail=dict(det, alternative_branch_transactions_running=nb_run))
                for bb in nested_bodies:
                    brun = ctx.get(bb.run)
                    parent = by_name.get(bb.name.rsplit("_cond", 1)[0])
                    if parent is not None:
                        rec.check("C03:nested_branch_transaction_runs_only_with_its_enclosing_body", not brun or bool(ctx.get(parent.run)), case=case,
                                  detail=dict(det, branch_body=bb.name, enclosing=parent.name))
                        rec.check("C13:branch_of_nested_condition_never_runs_without_the_enclosing_method_being_called", not brun or bool(prun), case=case,
                                  detail=dict(det, branch_body=bb.name))
                for i, w in enumerate(bw):
                    if not w:
                        continue
                    rec.count(f"branch_index_{i}_ran")
                    rec.check("C12:branch_runs_only_with_enclosing_body", bool(prun), case=case, detail=dict(det, branch=i))
                    rec.check("C12:branch_runs_only_if_its_condition_holds", bool(condv[i]), case=case, detail=dict(det, branch=i))
                    rec.check("C12:branch_runs_only_if_all_its_callees_are_ready", all(eff[j] for j in D["br"][i]), case=case, detail=dict(det, branch=i))
                    if any(V[j] for j in D["br"][i]):
                        rec.count("branch_runs_calling_a_validated_method")
                    if D["default"] and i == nb:
                        rec.check("C12:default_branch_only_when_no_other_condition_holds", not any(c), case=case, detail=det)
                    if D["priority"]:
                        skipped = [i2 for i2 in range(i) if adm[i2]]
                        exc = all(excused(callees_of_branch(i2)) for i2 in skipped)
                        if skipped and exc:
                            rec.count("priority_cycles_excused_by_outside_transaction")
                        rec.check("C12:with_priority_no_earlier_admissible_branch_is_skipped", exc, case=case, detail=dict(det, ran=i, earlier_admissible=skipped))
                        rec.count("priority_branch_runs")
                    if N and N["branch"] == i and not any(bw2):
                        rec.count("enclosing_branch_ran_without_nested_branch")
                        rec.check("C12:body_without_branch_only_if_nonblocking_and_no_condition_holds", N["nonblocking"] and not N["default"] and not any(c2), case=case,
                                  detail=dict(det, level="nested"))
                if N:
                    rec.check("C12:at_most_one_branch_runs", sum(bw2) <= 1, case=case, detail=dict(det, level="nested"))
                    for k, w in enumerate(bw2):
                        if not w:
                            continue
                        rec.count("nested_branch_runs")
                        rec.check("C12:branch_runs_only_with_enclosing_body", bool(bw[N["branch"]]), case=case, detail=dict(det, level="nested", branch=k))
                        rec.check("C12:branch_runs_only_if_its_condition_holds", bool(condv2[k]), case=case, detail=dict(det, level="nested", branch=k))
                        rec.check("C12:branch_runs_only_if_all_its_callees_are_ready", all(eff[j] for j in N["br"][k]), case=case, detail=dict(det, level="nested", branch=k))
                        if N["default"] and k == N["nb"]:
                            rec.check("C12:default_branch_only_when_no_other_condition_holds", not any(c2), case=case, detail=dict(det, level="nested"))
                        if N["priority"]:
                            skipped = [k2 for k2 in range(k) if adm2[k2]]
                            exc = all(excused(set(N["br"][k2])) for k2 in skipped)
                            rec.check("C12:with_priority_no_earlier_admissible_branch_is_skipped", exc, case=case, detail=dict(det, level="nested", ran=k, earlier_admissible=skipped))
                            rec.count("priority_branch_runs")
                if not any(ctx.get(s) for s in e.orr):
                    # no outside transaction asks to run: nothing can oppose the enclosing body, so it (and its caller) runs iff it is fully enabled
                    can = bool(ctx.get(e.pr)) and all(eff[j] for j in D["outer_calls"]) and (any(adm) or (D["nonblocking"] and not D["default"] and not any(c)))
                    if D["in_method"]:
                        called = host_called()
                        exp_host = bool(ctx.get(e.tr)) and called and can
                        crun = bool(ctx.get(e.caller.run))
                        if called:
                            ok = crun == (bool(ctx.get(e.tr)) and can)
                        else:
                            # the host is not called in this cycle: readiness of a conditionally called method is still required (C03), whether its
                            # branches must be admissible too is left open - the caller must run if everything is, and may run only if host and caller are ready
                            lower = bool(ctx.get(e.tr)) and can
                            upper = bool(ctx.get(e.tr)) and bool(ctx.get(e.pr)) and all(mr[j] for j in D["outer_calls"])
                            ok = (not lower or crun) and (not crun or upper)
                        rec.check("C07:unopposed_caller_of_condition_host_runs_iff_fully_enabled(consistency)", ok, case=case,
                                  detail=dict(det, host_called=called, caller_run=int(crun)))
                    else:
                        exp_host = can
                    rec.check("C07:unopposed_body_with_condition_runs_iff_fully_enabled(consistency)", bool(prun) == exp_host, case=case, detail=dict(det, expected_body_run=exp_host))
                    rec.count("unopposed_cycles")
                if prun and not any(bw):
                    rec.count("body_ran_without_branch")
                    rec.check("C12:body_without_branch_only_if_nonblocking_and_no_condition_holds", D["nonblocking"] and not D["default"] and not any(c), case=case, detail=det)
                if D["cond_call"] and not host_called():
                    rec.count("cycles_with_host_not_called")
                if D["cond_call"] in ("ifelse", "ifelif") and host_called():
                    rec.count("cycles_with_host_called_from_one_of_two_exclusive_sites")
                if sum(c) >= 2:
                    rec.count("cycles_with_two_or_more_conditions_true")
                if any(condv[i] and not all(eff[j] for j in D["br"][i]) for i in range(len(D["br"]))):
                    rec.count("cycles_with_true_condition_but_unready_callee")
                if any(condv[i] and all(mr[j] for j in D["br"][i]) and not all(eff[j] for j in D["br"][i]) for i in range(len(D["br"]))):
                    rec.count("cycles_with_true_condition_but_rejected_argument")
                if KC is not None:
                    kw, krun, lrun = bool(ctx.get(e.kw)), bool(ctx.get(e.ms[KC].run)), bool(ctx.get(e.leaf.run))
                    rec.check("C12:branch_runs_only_with_enclosing_body", not kw or krun, case=case, detail=dict(det, level="callee_condition", callee=KC, callee_run=int(krun)))
                    rec.check("C12:branch_runs_only_if_its_condition_holds", not kw or bool(ctx.get(e.kc)), case=case, detail=dict(det, level="callee_condition"))
                    rec.check("C12:body_without_branch_only_if_nonblocking_and_no_condition_holds", not krun or kw or not ctx.get(e.kc), case=case,
                              detail=dict(det, level="callee_condition", callee=KC))
                    rec.check("C04:method_runs_iff_called(consistency)", lrun == kw, case=case, detail=dict(det, method="leaf", branch_witness=int(kw)))
                    if kw:
                        rec.count("callee_condition_branch_runs")
                    if ctx.get(e.kc) and not krun:
                        rec.count("callee_condition_true_while_callee_idle")
                for j in range(D["nm"]):
                    exp = any(bw[i] for i in range(len(D["br"])) if j in D["br"][i]) or (pw and j in D["outer_calls"]) or \
                        any(orun and j in calls for orun, calls in zip(oruns, D["outside"])) or (N and any(bw2[k] for k in range(len(N["br"])) if j in N["br"][k]))
                    rec.check("C04:method_runs_iff_called(consistency)", bool(ctx.get(e.ms[j].run)) == bool(exp), case=case, detail=dict(det, method=j))
                rec.nontrivial(f"{tag}|c{sum(c)}|bw{bw.index(1) if 1 in bw else '-'}|x{bw2.index(1) if 1 in bw2 else '-'}|p{int(prun)}")
                await ctx.tick()

        sim.add_testbench(tb)
        sim.run()
    rec.count("designs")
    if len(rec.samples) < 2:
        rec.sample(case)


def shards(tier, seed):
    n = 160 if tier == "quick" else 8000
    per = 5 if tier == "quick" else 50
    return [{"seed": seed, "first": i, "n": per, "cycles": 400 if tier == "quick" else 1024} for i in range(0, n, per)]


def run_shard(spec, rec):
    for i in range(spec["first"], spec["first"] + spec["n"]):
        rnd = random.Random(f"C12:{spec['seed']}:{i}")
        try:
            run_one(rec, rnd, i, spec["cycles"])
        except Exception:
            if not rec.viol_total:
                rec.harness_error("C12 harness crashed: " + traceback.format_exc()[-600:])


RULE = ("generated condition() blocks: blocking/nonblocking x priority x with/without default, 1-4 branches with overlapping conditions, callees shared across "
        "branches and with 1-2 outside transactions, placed in a transaction or in a host method called plainly / under If / with enable_call / from two exclusive call sites of one transaction "
        "(If-Else, If-Elif), directly or through an intermediate method; 30% of the callees take an argument checked by validate_arguments (argument bit = input); 35% of the designs nest a second condition() "
        "(1-2 branches, own flags) inside one branch, whose own callee list is empty in half of these; in 35% one of the methods called from a branch contains a condition() of its own "
        "(one branch calling a leaf method); the netlist of every design is first checked for combinational "
        "cycles (Amaranth's build_netlist); all input valuations when <= 10 input bits, biased random otherwise; oracle: clauses (1)-(5) of DESIGN.md C12 on both levels "
        "(ready = ready and argument accepted), nested branch bodies run only with their enclosing body, the C04 consistency condition (a merged call without its enable "
        "shows as a method running without an active call) and the C07 consistency condition (with no outside transaction asking to run, body and caller run iff fully "
        "enabled); distinct non-trivial case = (configuration, number of true conditions, branch that ran, nested branch that ran, body ran)")
ASSUMPTIONS = ["with shared callees a skipped earlier admissible branch is excused only if an outside transaction sharing one of its callees ran in that cycle",
               "when a conditionally called host is not called in a cycle, only the bounds 'everything enabled => caller runs' and 'caller runs => host and caller ready' are asserted",
               "condition() nesting depth <= 2"]
MINIMA = {"quick": {"cycles": 20000, "cycles_with_two_or_more_conditions_true": 3000, "cycles_with_true_condition_but_unready_callee": 3000, "body_ran_without_branch": 200,
                    "priority_branch_runs": 1000, "branch_index_0_ran": 1000, "branch_index_3_ran": 20, "nested_branch_runs": 200, "designs_with_nested_condition": 20,
                    "branch_runs_calling_a_validated_method": 100, "cycles_with_true_condition_but_rejected_argument": 300, "unopposed_cycles": 5000,
                    "cycles_with_host_not_called": 1000, "cycles_with_host_called_from_one_of_two_exclusive_sites": 1000, "callee_condition_branch_runs": 200,
                    "callee_condition_true_while_callee_idle": 500, "distinct": 300},
          "thorough": {"cycles": 2000000, "distinct": 2000}}
