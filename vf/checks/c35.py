"""C35 - profiler records what actually ran."""

import random

from ..gen import core
from ..gen.checks import COMMON_ASSUMPTIONS, shape_of
from ..rec import Rec

ENGINE = "inframon"
TECHNIQUE = "runtime monitoring: the repository's profiler_process runs next to an independent observer process sampling run/ready/runnable of every body; the recorded profile and its statistics are compared with the observer's record"
OPTS = {"max_conflicts": 3, "p_call": 0.5}


def shards(tier, seed):
    n = 96 if tier == "quick" else 5000
    per = 3 if tier == "quick" else 25
    return [{"seed": seed, "first": i, "n": per, "cycles": 150 if tier == "quick" else 300} for i in range(0, n, per)]


def run_shard(spec, rec):
    for i in range(spec["first"], spec["first"] + spec["n"]):
        rnd = random.Random(f"C35:{spec['seed']}:{i}")
        D = core.gen(rnd, OPTS)
        A = core.repair(D, rnd)
        if A is None:
            continue
        case = {"design": i, "ir": core.describe(D)}
        before = rec.counters.get("locked_transaction_cycles", 0)
        core.run_profiled(rec, D, A, rnd, case, cycles=spec["cycles"])
        if rec.counters.get("locked_transaction_cycles", 0) > before:
            rec.nontrivial(shape_of(D))
        if len(rec.samples) < 1:
            rec.sample({"design": i, "ir": case["ir"]})


ASSUMPTIONS = COMMON_ASSUMPTIONS[:1] + ["body identifiers of the profile are recovered by calling ProfileData.make a second time on the same manager (same iteration order, same ids)",
                                        "the observer samples with the same tick trigger as the profiler process"]
RULE = ("random well-formed designs (core profile, eager scheduler) simulated with the repository's profiler process and an independent observer; oracle per cycle: "
        "set(running) == observed running bodies, every running method's recorded caller is a running parent, a transaction is marked locked only if it "
        "was ready and runnable, did not run, and the named locker ran and conflicts with it in the manager's graph; run/locked statistics equal the counts "
        "over cycles; non-trivial design = at least one locked transaction-cycle; distinct = design shape signature")
MINIMA = {"quick": {"cycles": 8000, "locked_transaction_cycles": 500, "method_records": 3000, "designs_profiled": 60, "distinct": 15},
          "thorough": {"cycles": 1000000, "distinct": 400}}
