"""C04 - methods execute exactly when called by a running caller."""

from ..gen.checks import GenCheck, COMMON_ASSUMPTIONS

ENGINE = "dgen+refsem"
TECHNIQUE = "runtime monitoring: random well-formed designs emitted as real Transactron objects, simulated under hostile input valuations; per-cycle oracle = independent reference semantics over sampled run/data/witness signals"
CHECK = GenCheck("C04", ("C04:",), {"nonex_weight": 1.5, "p_deepchain": 0.4}, scheds=("eager", "rr"), library=True, suite=True, cond=True, nontrivial_counter="method_idle_while_a_caller_ran")
shards, run_shard = CHECK.shards, CHECK.run_shard
ASSUMPTIONS = COMMON_ASSUMPTIONS
RULE = ("[plus the repository's own tests run with the transaction sanitizer attached to every simulator they create - two files in the quick tier, the whole suite in the thorough tier; test outcomes are not verdicts] [plus condition() designs of the cond profile, where nested branch transactions are merged with their enclosing body] [plus a realistic second workload: library components (FIFOs, stack, connectors, memories, CAM, allocators, metrics) under the hostile component driver with the design-independent transaction sanitizer vf/txsan.py attached] random well-formed designs (multi-level chains, nonexclusive methods with several simultaneous callers, provided/aliased methods, nested methods called by other transactions, uncalled methods); oracle: run[M] == OR of active call sites; uncalled methods never run; nested bodies run only with their enclosing body; non-trivial design = some cycle where a method stayed idle although a caller body ran (disabled call); distinct = (design shape signature, scheduler)")
MINIMA = {"quick": {"cycles": 8000, "method_run_cycles": 2000, "method_idle_while_a_caller_ran": 300, "nonexclusive_multi_caller_cycles": 100, "distinct": 15}, "thorough": {"cycles": 1000000, "distinct": 400}}
