"""C05 - call arguments and results are routed to the right party."""

from ..gen.checks import GenCheck, COMMON_ASSUMPTIONS

ENGINE = "dgen+refsem"
TECHNIQUE = "runtime monitoring: random well-formed designs emitted as real Transactron objects, simulated under hostile input valuations; per-cycle oracle = independent reference semantics over sampled run/data/witness signals"
CHECK = GenCheck("C05", ("C05:",), {"nonex_weight": 2.0, "p_call": 0.5, "p_deepchain": 0.4, "p_elif_diamond": 0.3}, scheds=("eager", "rr"), library=True, suite=True, nontrivial_counter="routed_args_with_several_potential_callers")
shards, run_shard = CHECK.shards, CHECK.run_shard
ASSUMPTIONS = COMMON_ASSUMPTIONS
RULE = ("[plus two realistic workloads with the design-independent sanitizer vf/txsan.py attached - library components under the hostile component drivers (lib shards) and the repository's own tests (suite shards: two files quick, all files thorough): whenever an exclusive method runs with exactly one active call site, its data_in equals the argument structure of that site; conditions C05:lib:* / C05:suite:*] random well-formed designs with unique-per-site arguments (external inputs, constants, caller's own argument), nonexclusive methods with OR / sum / default combiners, provide() alias chains of length <= 2; oracle: exclusive method input == argument of its single active site, combiner input == combiner over exactly the active sites, every active site observes the method output of that cycle, alias signals equal the body's; non-trivial design = a running exclusive method with >= 2 potential callers; distinct = (design shape signature, scheduler)")
MINIMA = {"quick": {"cycles": 8000, "cond:C05:exclusive_method_sees_argument_of_its_active_call": 500, "cond:C05:caller_observes_method_output": 2000, "combiner_cycles_with_several_contributors": 50, "calls_through_aliases": 300, "distinct": 4}, "thorough": {"cycles": 1000000, "distinct": 400}}
