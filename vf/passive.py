"""Passive component monitors: library components *embedded* in other designs are watched against the same reference models the hostile
component driver uses - without driving anything.

`install()` wraps the constructors of the monitored classes so that every instance created from then on is registered.  `attach(sim, rec, case)`
(after the simulator, hence the whole design, has been elaborated) adds one observer process per registered and elaborated instance: each cycle
it samples run / argument / result / API-level readiness of every method of the instance, compares readiness and results with the model
evaluated on the state at the start of the cycle, and steps the model with the calls observed to execute.  What the surrounding design asks of
the component (which methods together, with which arguments, when) is decided by real library logic, not by a random driver.

Conditions are named `embedded:<Component>:<condition>`; counters `embedded_<Component>_...`."""

from __future__ import annotations

import collections

from .rec import Rec
from .comp.driver import eff_ready, todict

REGISTRY: list = []
_INSTALLED = [False]
ACTIVE = [False]  # instances are registered only while a workload that attaches the monitors is running


def _specs():
    from transactron.lib import BasicFifo, FIFO, Forwarder, Pipe, Semaphore, Stack
    from transactron.lib.allocators import CircularAllocator, PreservedOrderAllocator, PriorityEncoderAllocator
    from transactron.lib.fifo import WideFifo
    from transactron.lib.storage import AsyncMemoryBank
    from .comp import models as M

    def amem(inst, a, kw):
        from amaranth import Shape
        from amaranth.lib import data
        if isinstance(kw["shape"], (data.Layout, type)) and not isinstance(kw["shape"], int):
            raise ValueError("structured rows are not watched passively")
        return M.AsyncMemM(kw["depth"], Shape.cast(kw["shape"]).width, kw.get("read_ports", 1), kw.get("write_ports", 1), kw.get("granularity"))

    def circ(inst, a, kw):
        return M.CircM(inst.entries, inst.max_alloc, inst.max_free, kw.get("with_validate_arguments", True))

    def pe(inst, a, kw):
        entries = a[0] if a else kw["entries"]
        aw = a[1] if len(a) > 1 else kw.get("alloc_ways", 1)
        fw = a[2] if len(a) > 2 else kw.get("free_ways", 1)
        return M.PEAllocM(entries, aw, fw, kw.get("init", -1))

    def wide(inst, a, kw):
        # WideFifo(shape, depth, read_width, write_width, write_max_count=...)
        names = ["shape", "depth", "read_width", "write_width", "write_max_count"]
        d = dict(zip(names, a))
        d.update(kw)
        from amaranth import Shape
        width = Shape.cast(d["shape"]).width
        return M.WideM(width, d["depth"], d["read_width"], d.get("write_width", d["read_width"]), bool(d.get("write_max_count", False)))

    return {
        BasicFifo: lambda inst, a, kw: M.FifoM(inst.depth, None, True),
        FIFO: lambda inst, a, kw: M.FifoM(a[1] if len(a) > 1 else kw["depth"], None, False),
        Stack: lambda inst, a, kw: M.StackM(inst.depth, None),
        Forwarder: lambda inst, a, kw: M.SlotM("fwd", None),
        Pipe: lambda inst, a, kw: M.SlotM("pipe", None),
        Semaphore: lambda inst, a, kw: M.SemM(inst.max_count),
        CircularAllocator: circ,
        PreservedOrderAllocator: lambda inst, a, kw: M.POAllocM(inst.entries),
        PriorityEncoderAllocator: pe,
        WideFifo: wide,
        AsyncMemoryBank: amem,
    }


def install():
    """Register every instance of a monitored class created from now on (idempotent)."""
    if _INSTALLED[0]:
        return
    _INSTALLED[0] = True
    for cls, factory in _specs().items():
        orig = cls.__init__

        def patched(self, *a, _orig=orig, _factory=factory, _cls=cls, **kw):
            _orig(self, *a, **kw)
            if type(self) is _cls and ACTIVE[0]:
                REGISTRY.append((self, _factory, a, kw))

        cls.__init__ = patched


def _method_of(inst, port):
    name, _, idx = port.partition("#")
    m = getattr(inst, name, None)
    if m is None:
        return None
    return m[int(idx)] if idx else m


class Watch:
    def __init__(self, inst, model, rec: Rec, case: dict):
        self.inst, self.model, self.rec, self.case = inst, model, rec, case
        self.name = type(inst).__name__
        self.ports = {}
        for p in model.ports:
            meth = _method_of(inst, p)
            if meth is not None:
                self.ports[p] = meth
        self.log: collections.deque = collections.deque(maxlen=10)
        self.dead = False
        self.extra = []
        try:
            self.extra = list(model.extra_signals(inst))
        except Exception:
            self.extra = []

    def usable(self):
        try:
            return bool(self.ports) and all(m._body_ptr is not None for m in self.ports.values())
        except Exception:
            return False

    def signals(self):
        sigs = []
        for m in self.ports.values():
            sigs += [m.run, m.data_in, m.data_out, eff_ready(m)]
        return sigs + self.extra

    def step(self, vals):
        if self.dead:
            return
        rec, model, case, tag = self.rec, self.model, self.case, f"embedded:{self.name}"
        ports = list(self.ports)
        runs = {p for k, p in enumerate(ports) if vals[4 * k]}
        model.d = runs
        args = {p: todict(vals[4 * k + 1]) for k, p in enumerate(ports)}
        outs = {p: todict(vals[4 * k + 2]) for k, p in enumerate(ports)}
        if "write" in runs and hasattr(model, "warg"):
            model.warg = args["write"]
        self.log.append({"run": sorted(runs), "args": {p: args[p] for p in runs}, "out": {p: outs[p] for p in runs}})
        det = {"component": self.name, "last_cycles": list(self.log)}
        try:
            calls = {}
            for k, p in enumerate(ports):
                base = p.partition("#")[0]
                r = bool(vals[4 * k + 3])
                if model.check_ready:
                    mr = bool(model.ready(p))
                    if not rec.check(f"{tag}:ready:{base}", r == mr, case=case, detail=dict(det, port=p, observed_ready=r, model_ready=mr)):
                        self.dead = True
                if p in runs:
                    if not rec.check(f"{tag}:runs_only_when_allowed", bool(model.ready(p)) and bool(model.accepts(p, args[p])), case=case, detail=dict(det, port=p)):
                        self.dead = True
                        continue
                    exp = model.result(p, args[p])
                    if exp is not None:
                        if not rec.check(f"{tag}:result:{base}", bool(model.same(p, exp, outs[p])), case=case, detail=dict(det, port=p, expected=exp, observed=outs[p])):
                            self.dead = True
                    calls[p] = (args[p], outs[p])
                    rec.count(f"embedded_{self.name}_calls:{base}")
            if self.dead:
                return
            if self.extra:
                for (nm, expv), got in zip(model.extra_expected(), vals[4 * len(ports):]):
                    if not rec.check(f"{tag}:state:{nm}", expv == todict(got), case=case, detail=dict(det, signal=nm, expected=expv, observed=todict(got))):
                        self.dead = True
            nt = model.nontrivial(calls)
            model.apply(calls)
            for e in model.post_errors():
                rec.check(f"{tag}:{e[0]}", False, case=case, detail=dict(det, what=e[1:]))
                self.dead = True
            if len(calls) > 1:
                rec.count(f"embedded_{self.name}_multi_call_cycles")
            if nt is not None:
                rec.nontrivial(f"embedded|{self.name}|{nt}")
            rec.count(f"embedded_{self.name}_cycles")
        except Exception as ex:
            if not rec.viol_total:
                rec.harness_error(f"passive monitor of {self.name} crashed: {type(ex).__name__}: {ex}")
            self.dead = True


def attach(sim, rec: Rec, case: dict, only: tuple[str, ...] | None = None):
    """Attach observers for all registered, elaborated instances (and empty the registry)."""
    entries, REGISTRY[:] = list(REGISTRY), []
    watches = []
    # only instances that are part of THIS simulation: all their methods are known to its transaction manager
    tm = getattr(getattr(sim, "tested_module", None), "transaction_manager", None)
    known = {id(m._body) for m in tm.methods} if tm is not None else None
    for inst, factory, a, kw in entries:
        if only is not None and type(inst).__name__ not in only:
            continue
        try:
            w = Watch(inst, factory(inst, a, kw), rec, case)
        except Exception as ex:
            rec.count(f"embedded_model_not_built:{type(inst).__name__}:{type(ex).__name__}")
            continue
        if w.usable() and (known is None or all(id(m._body) in known for m in w.ports.values())):
            watches.append(w)
            rec.count(f"embedded_{w.name}_instances")
    for w in watches:
        sigs = w.signals()

        async def process(ctx, w=w, sigs=sigs):
            async for _, _, *vals in ctx.tick().sample(*sigs):
                w.step(vals)

        sim.add_process(process)
    return watches


CURRENT: Rec | None = None  # set by the embedded-use shards: harnesses with their own drivers then attach the passive monitors
ONLY: tuple[str, ...] | None = None


def maybe_attach(sim, case: dict):
    if CURRENT is not None:
        try:
            attach(sim, CURRENT, case, ONLY)
        except Exception as ex:
            CURRENT.harness_error(f"passive monitors could not be attached: {type(ex).__name__}: {ex}")
