"""Mutation discipline (DESIGN.md section 2): apply one realistic property-breaking edit to a scratch copy of the
repository, run the property's check against it through VERIF_REPO, record caught/missed, delete the copy.

Mutants are listed in /verif/mutants/list.txt: name|properties(comma)|file|old|new  ('\\n' escapes, first occurrence replaced)."""

from __future__ import annotations

import os
import shutil
import subprocess
import sys
import tempfile
import time
from concurrent.futures import ThreadPoolExecutor

from . import VERIF_DIR

LIST = os.path.join(VERIF_DIR, "mutants", "list.txt")


def load():
    out = []
    with open(LIST) as f:
        for line in f:
            line = line.rstrip("\n")
            if not line or line.startswith("#"):
                continue
            name, props, file, old, new = line.split("|", 4)
            dec = lambda s: s.replace("\\n", "\n").replace("\\p", "|")
            out.append({"name": name, "props": props.split(","), "file": file, "old": dec(old), "new": dec(new)})
    return out


def run_one(mut, tier, jobs, seed):
    tmp = tempfile.mkdtemp(prefix=f"vfmut_{mut['name']}_")
    res = []
    try:
        subprocess.run(["rsync", "-a", "--exclude", "__pycache__", "/repo/transactron", tmp + "/"], check=True)
        path = os.path.join(tmp, "transactron", mut["file"])
        s = open(path).read()
        if mut["old"] not in s:
            return [(mut["name"], "-", "PATTERN-NOT-FOUND", 0.0)]
        open(path, "w").write(s.replace(mut["old"], mut["new"], 1))
        for prop in mut["props"]:
            env = dict(os.environ, VERIF_REPO=tmp, VERIF_NO_EVIDENCE="1", VERIF_JOBS=str(jobs), VERIF_SEED=str(seed), VERIF_ANCHORS="0")
            t0 = time.time()
            r = subprocess.run([sys.executable, "-m", "vf", "check", prop, "--tier", tier], cwd=VERIF_DIR, env=env, capture_output=True, text=True)
            lines = [ln for ln in r.stdout.splitlines() if ln.startswith(("VIOLATION", "INCONCLUSIVE", "  violated"))]
            verdict = {0: "MISSED", 1: "caught", 3: "inconclusive"}.get(r.returncode, f"exit{r.returncode}")
            first = next((ln.strip()[:150] for ln in r.stdout.splitlines() if ln.startswith(("  violated", "INCONCLUSIVE"))), "")
            res.append((mut["name"], prop, verdict, time.time() - t0, first))
    finally:
        shutil.rmtree(tmp, ignore_errors=True)
    return res


def main(argv):
    import argparse

    ap = argparse.ArgumentParser()
    ap.add_argument("--only", default="")
    ap.add_argument("--prop", default="")
    ap.add_argument("--tier", default="quick")
    ap.add_argument("--par", type=int, default=4)
    ap.add_argument("--seed", type=int, default=0)
    a = ap.parse_args(argv)
    muts = load()
    if a.only:
        muts = [m for m in muts if any(m["name"].startswith(x) for x in a.only.split(","))]
    if a.prop:
        ps = set(a.prop.split(","))
        muts = [dict(m, props=[p for p in m["props"] if p in ps]) for m in muts if ps & set(m["props"])]
    jobs = max(2, 16 // a.par)
    with ThreadPoolExecutor(a.par) as ex:
        for res in ex.map(lambda m: run_one(m, a.tier, jobs, a.seed), muts):
            for r in res:
                print(f"{r[0]:32s} {r[1]:4s} {r[2]:12s} {r[3]:6.1f}s  {r[4] if len(r) > 4 else ''}", flush=True)


if __name__ == "__main__":
    main(sys.argv[1:])
