"""E1 `txsan`: design-independent per-cycle transaction sanitizer.

Given any elaborated design (its TransactionManager), enumerates all bodies and all syntactic call sites from Body.method_calls,
samples run/ready of every body and the enable witness of every call site each cycle, and asserts:

  C01  at most one active site per method that is not nonexclusive
  C04  method.run <=> some active site ; nested body runs => parent runs
  C03  run => ready ; run => every (transitively) called method ready ; run => ready-dependencies run
  C02  both ends of a declared conflict never run together

It is attached to simulations of real library components (FIFOs, memories, allocators, transformers, pipelines ...) so that the
core properties are also observed on realistic designs, not only on generated ones."""

from __future__ import annotations

from .rec import Rec


class TxSan:
    def __init__(self, transaction_manager, rec: Rec, case: dict, tag: str = "lib"):
        self.tm, self.rec, self.case, self.tag = transaction_manager, rec, case, tag
        bodies = []
        for t in transaction_manager.transactions:
            bodies.append(t._body)
        for m in transaction_manager.methods:
            b = m._body
            if not any(b is x for x in bodies):
                bodies.append(b)
        self.bodies = bodies
        self.index = {id(b): i for i, b in enumerate(bodies)}
        self.sites = []  # (caller index, callee index, enable signal)
        self.site_args = []  # argument structure passed at that call site
        for b in bodies:
            for meth, calls in b.method_calls.items():
                cb = meth._body
                if id(cb) not in self.index:
                    self.index[id(cb)] = len(self.bodies)
                    self.bodies.append(cb)
                for _, arg, en in calls:
                    self.sites.append((self.index[id(b)], self.index[id(cb)], en))
                    self.site_args.append(arg)
        self.is_transaction = [False] * len(self.bodies)
        for t in transaction_manager.transactions:
            self.is_transaction[self.index[id(t._body)]] = True
        self.by_callee: dict[int, list[int]] = {}
        for k, (_, callee, _) in enumerate(self.sites):
            self.by_callee.setdefault(callee, []).append(k)
        self.callees_of: dict[int, set[int]] = {}
        for caller, callee, _ in self.sites:
            self.callees_of.setdefault(caller, set()).add(callee)
        self.conflicts = []
        self.deps = []
        for b in self.bodies:
            for rel in b.relations:
                e = rel.end
                if id(e) in self.index:
                    if rel.conflict:
                        self.conflicts.append((self.index[id(b)], self.index[id(e)]))
                    if rel.ready_dependent:
                        self.deps.append((self.index[id(b)], self.index[id(e)]))  # e is ready-dependent on b

    def signals(self):
        from amaranth import Value
        self.with_args = []  # indices of the sites whose callee takes an argument (non-empty input layout)
        arg_sigs = []
        for k, (_, callee, _) in enumerate(self.sites):
            try:
                a, d = Value.cast(self.site_args[k]), Value.cast(self.bodies[callee].data_in)
            except Exception:
                continue
            if len(d) and len(a) == len(d):
                self.with_args.append(k)
                arg_sigs.append(a)
        self.din = [i for i in sorted({self.sites[k][1] for k in self.with_args})]
        return [b.run for b in self.bodies] + [b.ready for b in self.bodies] + [en for _, _, en in self.sites] + arg_sigs + \
            [Value.cast(self.bodies[i].data_in) for i in self.din]

    def check(self, vals):
        n, rec, case, tag = len(self.bodies), self.rec, self.case, self.tag
        ns = len(self.sites)
        run, ready, en = vals[:n], vals[n:2 * n], vals[2 * n:2 * n + ns]
        argv = dict(zip(self.with_args, vals[2 * n + ns:2 * n + ns + len(self.with_args)]))
        dinv = dict(zip(self.din, vals[2 * n + ns + len(self.with_args):]))
        active = [bool(run[c]) and bool(e) for (c, _, _), e in zip(self.sites, en)]
        name = lambda i: self.bodies[i].name  # noqa: E731
        for i, b in enumerate(self.bodies):
            ks = self.by_callee.get(i, [])
            nact = sum(1 for k in ks if active[k])
            if not self.is_transaction[i]:
                rec.check(f"C04:{tag}:method_runs_iff_some_call_site_active", bool(run[i]) == (nact > 0), case=case,
                          detail={"method": name(i), "run": int(run[i]), "active_sites": nact})
                if not b.nonexclusive:
                    rec.check(f"C01:{tag}:at_most_one_active_call_per_exclusive_method", nact <= 1, case=case,
                              detail={"method": name(i), "active_callers": [name(self.sites[k][0]) for k in ks if active[k]]})
                    if len(ks) >= 2:
                        rec.count(f"{tag}_exclusive_method_cycles_with_several_call_sites")
                elif nact >= 2:
                    rec.count(f"{tag}_nonexclusive_multi_caller_cycles")
            if run[i] and i in dinv and not b.nonexclusive:
                act = [k for k in ks if active[k] and k in argv]
                if len(act) == 1 and nact == 1:
                    rec.check(f"C05:{tag}:exclusive_method_sees_the_argument_of_its_active_call", dinv[i] == argv[act[0]], case=case,
                              detail={"method": name(i), "caller": name(self.sites[act[0]][0]), "argument": argv[act[0]], "data_in": dinv[i]})
                    if len([k for k in ks if k in argv]) >= 2:
                        rec.count(f"{tag}_argument_routed_among_several_call_sites")
            if run[i]:
                rec.count(f"{tag}_body_run_cycles")
                rec.check(f"C03:{tag}:body_runs_only_when_ready", bool(ready[i]), case=case, detail={"body": name(i)})
                for c in self.callees_of.get(i, ()):
                    rec.check(f"C03:{tag}:running_body_has_all_called_methods_ready", bool(ready[c]), case=case,
                              detail={"body": name(i), "callee": name(c)})
        for a, b in self.conflicts:
            rec.check(f"C02:{tag}:declared_conflict_ends_never_run_together", not (run[a] and run[b]), case=case, detail={"ends": [name(a), name(b)]})
        for a, b in self.deps:
            rec.check(f"C04:{tag}:ready_dependent_body_runs_only_with_the_body_it_depends_on", not run[b] or bool(run[a]), case=case,
                      detail={"body": name(b), "depends_on": name(a)})
        rec.count(f"{tag}_sanitized_cycles")


def attach(sim, rec: Rec, case: dict, tag: str = "lib"):
    """Attach the sanitizer to a PysimSimulator (must be called after construction, i.e. after elaboration)."""
    tested = sim.tested_module
    tm = getattr(tested, "transaction_manager", None)
    if tm is None:
        return None
    san = TxSan(tm, rec, case, tag)
    sigs = san.signals()

    async def process(ctx):
        async for _, _, *vals in ctx.tick().sample(*sigs):
            san.check([int(v) for v in vals])

    sim.add_process(process)
    rec.count(f"{tag}_sanitized_simulations")
    return san


CURRENT: Rec | None = None  # when set (by the library shards of C01-C04), harnesses with their own drivers attach the sanitizer too


def maybe_attach(sim, case: dict, tag: str = "lib"):
    if CURRENT is not None:
        try:
            attach(sim, CURRENT, case, tag)
        except Exception:
            CURRENT.harness_error("txsan could not be attached")
