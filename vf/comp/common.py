"""Boilerplate shared by the component checks (E3)."""

from __future__ import annotations

import random

from ..rec import Rec
from .driver import run_history

TIERS = {"quick": (48, 400), "thorough": (1600, 1500)}


class ComponentCheck:
    def __init__(self, pid: str, pick, tiers: dict | None = None, drain: int = 40, per_shard: int | None = None, rivals: bool = True):
        self.pid, self.pick, self.rivals = pid, pick, rivals
        self.tiers = dict(TIERS, **(tiers or {}))
        self.drain = drain
        self.per_shard = per_shard

    def shards(self, tier: str, seed: int):
        hist, cycles = self.tiers[tier]
        per = self.per_shard or (3 if tier == "quick" else 10)
        return [{"seed": seed, "first": i, "n": min(per, hist - i), "cycles": cycles} for i in range(0, hist, per)]

    def run_shard(self, spec: dict, rec: Rec):
        for i in range(spec["first"], spec["first"] + spec["n"]):
            rnd = random.Random(f"{self.pid}:{spec['seed']}:{i}")
            case, make, klass = self.pick(rnd, i)
            case = dict(case, history=i, seed=spec["seed"])
            rec.count("configs:" + str(case.get("kind", "")))
            if len(rec.samples) < 2:
                rec.sample({"config": case, "cycles": spec["cycles"]})
            # 30% of the histories give each provided exclusive method a second, competing caller
            rivals = self.rivals and random.Random(f"rivals:{self.pid}:{spec['seed']}:{i}").random() < 0.3
            run_history(rec, make, rnd, spec["cycles"], case, klass=klass, drain=self.drain, prop_tag=str(case.get("kind", "")), rivals=rivals)
