"""Boilerplate shared by the component checks (E3)."""

from __future__ import annotations

import random

from ..rec import Rec
from .driver import run_history

TIERS = {"quick": (48, 400), "thorough": (1600, 1500)}


def embedded_workloads():
    """Workloads in which library components appear EMBEDDED in other library components (name -> run(rec, rnd, cycles, i))."""
    from ..checks import c14, c18, c19, c28, c32
    from transactron.lib.metrics import HwMetricsEnabledKey
    from transactron.utils.dependencies import DependencyContext, DependencyManager

    def measurer(run, mk):
        def go(rec, rnd, cycles, i):
            with DependencyContext(DependencyManager()):
                DependencyContext.get().add_dependency(HwMetricsEnabledKey(), True)
                run(rec, rnd, cycles, dict(mk(rnd, i), history=i))
        return go

    def basicfifo(rec, rnd, cycles, i):
        from .. import passive
        case, make, klass = c14.pick(rnd, 2 * i)  # BasicFifo (contains a CircularAllocator) under the hostile driver, with and without rival callers
        run_history(rec, make, rnd, cycles, dict(case, history=i), drain=40, rivals=i % 2 == 1, passive_rec=passive.CURRENT)

    return {
        "serializer": lambda rec, rnd, cycles, i: c19.run_serializer(rec, rnd, cycles, {"component": "Serializer", "ports": 1 + i % 4, "depth": [1, 2, 3, 4, 8][i % 5], "history": i}),
        "zipper": lambda rec, rnd, cycles, i: c19.run_zipper(rec, rnd, cycles, {"component": "ArgumentsToResultsZipper", "history": i}),
        "pipeline": lambda rec, rnd, cycles, i: c28.run_pipeline(rec, rnd, cycles, i, rnd.choice([0.0, 0.03])),
        "collector": lambda rec, rnd, cycles, i: c18.run_history(rec, "Collector", rnd, cycles, {"transformer": "Collector", "rep": i}),
        "wide_measurer": measurer(c32.run_wide, lambda rnd, i: (lambda ms, mp: {"measurer": "WideFIFOLatencyMeasurer", "slots": max(ms, mp) * rnd.randint(1, 3), "max_latency": rnd.choice([15, 16, 31, 100]),
                                                                           "max_start_count": ms, "max_stop_count": mp})(rnd.randint(1, 3), rnd.randint(1, 3))),
        "fifo_measurer": measurer(c32.run_fifo, lambda rnd, i: {"measurer": "FIFOLatencyMeasurer", "slots": rnd.randint(1, 8), "max_latency": rnd.choice([7, 8, 15, 100]), "ways": rnd.randint(1, 3)}),
        "tagged_measurer": measurer(c32.run_tagged, lambda rnd, i: {"measurer": "TaggedLatencyMeasurer", "slots": rnd.randint(1, 8), "max_latency": rnd.choice([7, 8, 15, 64, 100]), "ways": rnd.randint(1, 3)}),
        "basicfifo": basicfifo,
    }


def run_embedded_shard(spec: dict, rec: Rec, pid: str, classes: tuple[str, ...], workloads: tuple[str, ...]):
    """Second workload of a component check: instances of `classes` embedded in other library components (pipelines, Serializer, zipper, Collector,
    latency measurers, BasicFifo), watched by the passive monitors of vf/passive.py against the same reference models."""
    from .. import passive
    passive.install()
    wl = embedded_workloads()
    prec = Rec(pid, rec.shard)
    passive.ACTIVE[0], passive.CURRENT, passive.ONLY = True, prec, classes
    try:
        for i in range(spec["first"], spec["first"] + spec["n"]):
            name = workloads[i % len(workloads)]
            rnd = random.Random(f"{pid}:embedded:{spec['seed']}:{i}")
            host = Rec(pid, rec.shard)
            try:
                wl[name](host, rnd, spec["cycles"], i)
            except Exception as ex:
                rec.note(f"embedded workload {name} raised {type(ex).__name__}")
            if host.viol_total:
                rec.count("foreign_alarm:host_harness:" + name)  # the host's own property is decided by its own check
            rec.count("embedded_histories:" + name)
    finally:
        passive.ACTIVE[0], passive.CURRENT, passive.ONLY = False, None, None
        passive.REGISTRY.clear()
    rec.counters.update(prec.counters)
    for k, v in prec.conds.items():
        c = rec.conds.setdefault(k, [0, 0, 0])
        for j in range(3):
            c[j] += v[j]
    rec.violations.extend(prec.violations)
    rec.viol_total += prec.viol_total
    rec.distinct |= prec.distinct
    for h in prec.harness_errors:
        rec.harness_error(h)


class ComponentCheck:
    def __init__(self, pid: str, pick, tiers: dict | None = None, drain: int = 40, per_shard: int | None = None, rivals: bool = True,
                 embedded: tuple[tuple[str, ...], tuple[str, ...]] | None = None, suite: tuple[tuple[str, ...], tuple[str, ...]] | None = None):
        self.pid, self.pick, self.rivals, self.embedded, self.suite = pid, pick, rivals, embedded, suite
        self.tiers = dict(TIERS, **(tiers or {}))
        self.drain = drain
        self.per_shard = per_shard

    def shards(self, tier: str, seed: int):
        hist, cycles = self.tiers[tier]
        per = self.per_shard or (3 if tier == "quick" else 10)
        out = [{"seed": seed, "first": i, "n": min(per, hist - i), "cycles": cycles} for i in range(0, hist, per)]
        if self.embedded:
            nemb = 12 if tier == "quick" else 240
            out += [{"seed": seed, "embedded": True, "first": i * 3, "n": 3, "cycles": 300 if tier == "quick" else 800} for i in range(nemb)]
        if self.suite and tier != "quick":
            # third workload (thorough tier): the repository's own tests of this component and of its users, with the passive monitors attached
            from ..gen.checks import SUITE_PARTS
            for f in self.suite[1]:
                n = SUITE_PARTS.get(f, 1)
                out += [{"seed": seed, "suite": True, "file": f, "root": "/repo", "part": f"{i}/{n}"} for i in range(n)]
        return out

    def run_shard(self, spec: dict, rec: Rec):
        if spec.get("suite"):
            from ..gen.checks import run_suite_shard
            return run_suite_shard(spec, rec, self.pid, ("embedded:",), passive=self.suite[0])
        if spec.get("embedded"):
            return run_embedded_shard(spec, rec, self.pid, self.embedded[0], self.embedded[1])
        for i in range(spec["first"], spec["first"] + spec["n"]):
            rnd = random.Random(f"{self.pid}:{spec['seed']}:{i}")
            case, make, klass = self.pick(rnd, i)
            case = dict(case, history=i, seed=spec["seed"])
            rec.count("configs:" + str(case.get("kind", "")))
            if len(rec.samples) < 2:
                rec.sample({"config": case, "cycles": spec["cycles"]})
            # 30% of the histories give each provided exclusive method a second, competing caller
            rivals = self.rivals and random.Random(f"rivals:{self.pid}:{spec['seed']}:{i}").random() < 0.3
            run_history(rec, make, rnd, spec["cycles"], case, klass=klass, drain=self.drain, prop_tag=str(case.get("kind", "")), rivals=rivals)
