"""E3 component monitor: generic hostile driver + lock-step reference model (DESIGN.md 3.3).

One driver process per simulation. Per cycle: set every enable/argument, wait for the clock edge
sampling the *settled* done/result/readiness signals, compare with the model evaluated on the state
at the start of the cycle, then step the model with the calls that were observed to execute."""

from __future__ import annotations

import collections
import random
import traceback
from typing import Any

from amaranth import Cat, Elaboratable, Module
from transactron.lib import AdapterTrans
from transactron.testing import SimpleTestCircuit, PysimSimulator, TestbenchIO
from transactron.testing.functions import data_const_to_dict
from transactron.utils.dependencies import DependencyContext, DependencyManager

from ..rec import Rec


def eff_ready(method) -> Any:
    """API-level readiness: AND of Body.ready over the method body and its static callee tree."""
    seen: list = []

    def rec(b):
        if any(b is x for x in seen):
            return
        seen.append(b)
        for meth in b.method_calls:
            rec(meth._body)

    rec(method._body)
    return Cat(b.ready for b in seen).all()


def todict(c):
    try:
        return data_const_to_dict(c)
    except Exception:
        return c


class RivalCircuit(SimpleTestCircuit):
    """SimpleTestCircuit with a SECOND caller transaction (rival) for chosen provided methods: an exclusive method serves one caller per cycle."""

    def __init__(self, dut, rival_ports):
        super().__init__(dut)
        self._rival_ports = list(rival_ports)
        self._rivals: dict[str, TestbenchIO] = {}

    def elaborate(self, platform):
        m = super().elaborate(platform)
        for k, p in enumerate(self._rival_ports):
            io = resolve_port(self, p)
            if not isinstance(io.adapter, AdapterTrans):
                continue  # a method the component requires (mock), not one it provides
            tb = TestbenchIO(AdapterTrans.create(io.adapter.iface))
            m.submodules[f"rival{k}"] = tb
            self._rivals[p] = tb
        return m


class RivalSet(Elaboratable):
    """Second caller transactions for the given provided methods, for harnesses with their own drivers (see `rival_step`)."""

    def __init__(self, methods: dict):
        self.tb = {k: TestbenchIO(AdapterTrans.create(meth)) for k, meth in methods.items()}

    def elaborate(self, platform):
        m = Module()
        for i, tb in enumerate(self.tb.values()):
            m.submodules[f"rival{i}"] = tb
        return m

    def request(self, ctx, rnd, key, main_io, en: bool, data=None, rec: Rec | None = None):
        """Drive the main caller and its rival for one cycle: the request `en` is issued by the main caller, the rival or both (same arguments)."""
        tb = self.tb[key]
        who = "main"
        if en:
            x = rnd.random()
            who = "both" if x < 0.45 else "rival" if x < 0.6 else "main"
            if who == "both" and rec is not None:
                rec.count("cycles_with_two_callers_requesting_one_method")
        ctx.set(main_io.adapter.en, en and who != "rival")
        ctx.set(tb.adapter.en, en and who != "main")
        if data is not None:
            ctx.set(main_io.adapter.data_in, data)
            ctx.set(tb.adapter.data_in, data)

    def signals(self):
        return [x for tb in self.tb.values() for x in (tb.adapter.done, tb.adapter.data_out)]

    def fold(self, rec: Rec, case, key, main_done, main_out, vals, detail=None):
        """vals = sampled values of `signals()`; returns (done, out) of the port as seen by one logical caller, after checking exclusivity."""
        j = list(self.tb).index(key)
        rdone, rout = bool(vals[2 * j]), vals[2 * j + 1]
        rec.check("exclusive_method_serves_at_most_one_caller_per_cycle", not (rdone and bool(main_done)), case=case,
                  detail=dict(detail or {}, port=key, main_done=bool(main_done), rival_done=rdone))
        if rdone and not main_done:
            rec.count("calls_served_to_the_rival_caller")
            return True, rout
        return bool(main_done), main_out


class Model:
    """Reference model interface (see DESIGN.md 3.3 for the conventions)."""

    ports: dict[str, float] = {}
    shared_ports: tuple[str, ...] = ()  # the documented nonexclusive methods of the component: two callers requesting one are both served
    conflicts = False  # ports conflict with each other: only `done => allowed` is checked
    needs_dones = False  # readiness depends on the observed same-cycle run of other ports
    check_ready = True
    d: set[str] = set()

    def begin_cycle(self, rnd):  # noqa: D401
        pass

    def ready(self, p: str) -> bool:
        return True

    def args(self, p: str, rnd: random.Random):
        return {}

    def accepts(self, p: str, a) -> bool:
        return True

    def result(self, p: str, a):
        return None

    def same(self, p: str, exp, out) -> bool:
        return exp == out

    def apply(self, calls: dict[str, tuple[Any, Any]]):
        pass

    def post_errors(self) -> list:
        return []

    def extra_signals(self, dut) -> list:
        return []

    def extra_expected(self) -> list[tuple[str, Any]]:
        return []

    def state_key(self):
        return None

    def drain_ports(self) -> dict[str, float] | None:
        """Port probabilities for the drain phase (None = no drain)."""
        return None

    def final_errors(self) -> list:
        return []

    def nontrivial(self, calls) -> Any:
        return None


def resolve_port(circ, port: str):
    name, _, idx = port.partition("#")
    io = getattr(circ, name)
    return io[int(idx)] if idx else io


def run_history(rec: Rec, make, rnd: random.Random, cycles: int, case: dict, klass: str = "", drain: int = 0, prop_tag: str = "", san_rec: Rec | None = None,
                rivals: bool = False, passive_rec: Rec | None = None):
    """Run one history. `make(rnd)` returns (dut, model). Returns number of monitored cycles.

    rivals=True: every provided exclusive method gets a second caller transaction; per cycle a port is requested by its main caller, its rival or both
    (with the same arguments) - an exclusive method must serve exactly one of them."""
    dm = DependencyManager()
    log: collections.deque = collections.deque(maxlen=12)
    state = {"cycles": 0, "stop": False}

    def fail(cond, detail):
        rec.check(cond, False, klass=klass, case=case, detail={"what": detail, "last_cycles": list(log)})
        state["stop"] = True

    with DependencyContext(dm):
        try:
            dut, model = make(rnd)
            if rivals:
                circ = RivalCircuit(dut, list(model.ports))  # documented nonexclusive methods get a second caller too: both must be served
            else:
                circ = SimpleTestCircuit(dut)
            sim = PysimSimulator(circ, max_cycles=cycles + drain + 20)
        except Exception:
            rec.check("constructs", False, klass=klass, case=case, detail=traceback.format_exc()[-1500:])
            return 0
        rec.check("constructs", True)
        if san_rec is not None:
            from ..txsan import attach
            attach(sim, san_rec, case)
        if passive_rec is not None:
            from .. import passive
            passive.attach(sim, passive_rec, case, passive.ONLY)

        async def drv(ctx):
            ios = {p: resolve_port(circ, p) for p in model.ports}
            rdy = {p: eff_ready(ios[p].adapter.iface) for p in ios}
            sigs = []
            for p, io in ios.items():
                sigs += [io.adapter.done, io.adapter.data_out, rdy[p]]
            extra = model.extra_signals(dut)
            riv = dict(circ._rivals) if rivals else {}
            rsigs = []
            for p, tb in riv.items():
                rsigs += [tb.adapter.done, tb.adapter.data_out]
            if rivals:
                rec.count("histories_with_rival_callers")
            trig = ctx.tick().sample(*sigs, *extra, *rsigs)
            choices = [0.1, 0.5, 0.9, 1.0]
            probs = {p: rnd.choice(choices) * w for p, w in model.ports.items()}
            epoch_end = rnd.randint(20, 120)
            total = cycles + drain
            for cyc in range(total):
                draining = cyc >= cycles
                if draining:
                    dp = model.drain_ports()
                    if dp is None:
                        break
                    probs = dp
                elif cyc >= epoch_end:
                    probs = {p: rnd.choice(choices) * w for p, w in model.ports.items()}
                    epoch_end = cyc + rnd.randint(20, 120)
                model.begin_cycle(rnd)
                en, args, whos = {}, {}, {}
                for p, io in ios.items():
                    en[p] = rnd.random() < probs.get(p, 0)
                    a = model.args(p, rnd)
                    if a is None:
                        en[p] = False
                        a = {}
                    args[p] = a
                    who = "main"
                    if p in riv and en[p]:
                        x = rnd.random()
                        who = "both" if x < 0.45 else "rival" if x < 0.6 else "main"
                        if p.partition("#")[0] in model.shared_ports:
                            who = "both" if x < 0.6 else "main"
                        if who == "both":
                            rec.count("cycles_with_two_callers_requesting_one_method")
                    whos[p] = who
                    ctx.set(io.adapter.en, en[p] and who != "rival")
                    if a:
                        ctx.set(io.adapter.data_in, a)
                    if p in riv:
                        ctx.set(riv[p].adapter.en, en[p] and who != "main")
                        if a:
                            ctx.set(riv[p].adapter.data_in, a)
                _, _, *vals = await trig
                n = len(ios)
                if riv:
                    # fold the rival's execution into the port: the model sees one port, whichever caller was served
                    vals = list(vals)
                    base_r = len(vals) - len(rsigs)
                    for j, p in enumerate(riv):
                        k = list(ios).index(p)
                        dmain, drival = bool(vals[3 * k]), bool(vals[base_r + 2 * j])
                        if p.partition("#")[0] in model.shared_ports:
                            # a documented nonexclusive method: two callers requesting it in one cycle are both served, with the same result
                            if whos.get(p) == "both":
                                same_out = (not dmain) or todict(vals[3 * k + 1]) == todict(vals[base_r + 2 * j + 1])
                                if not rec.check("nonexclusive_method_serves_every_caller_with_the_same_result", dmain == drival and same_out, klass=klass, case=case,
                                                 detail={"port": p, "main_done": dmain, "rival_done": drival, "last_cycles": list(log)}):
                                    state["stop"] = True
                                if dmain and drival:
                                    rec.count("nonexclusive_calls_served_to_two_callers")
                            continue
                        if not rec.check("exclusive_method_serves_at_most_one_caller_per_cycle", not (dmain and drival), klass=klass, case=case,
                                         detail={"port": p, "main_done": dmain, "rival_done": drival, "args": args[p], "last_cycles": list(log)}):
                            state["stop"] = True
                        if drival and not dmain:
                            vals[3 * k], vals[3 * k + 1] = 1, vals[base_r + 2 * j + 1]
                            rec.count("calls_served_to_the_rival_caller")
                    vals = vals[:base_r]
                    if state["stop"]:
                        return
                dones = {p for k, p in enumerate(ios) if vals[3 * k]}
                model.d = dones
                calls: dict[str, tuple[Any, Any]] = {}
                entry = {"cycle": cyc, "en": sorted(p for p in en if en[p]), "done": sorted(dones),
                         "args": {p: args[p] for p in dones}, "out": {p: todict(vals[3 * k + 1]) for k, p in enumerate(ios) if p in dones}}
                log.append(entry)
                try:
                    mready = {p: bool(model.ready(p)) for p in ios}
                    allowed = {p: mready[p] and bool(model.accepts(p, args[p])) for p in ios}
                    groups = getattr(model, "conflict_groups", [])
                    for k, p in enumerate(ios):
                        done, out, r = bool(vals[3 * k]), vals[3 * k + 1], bool(vals[3 * k + 2])
                        base = p.partition("#")[0]
                        mr = mready[p]
                        if model.check_ready:
                            rec.check(f"ready:{base}", r == mr, klass=klass, case=case,
                                      detail={"port": p, "observed_ready": r, "model_ready": mr, "last_cycles": list(log)})
                            if r != mr:
                                state["stop"] = True
                        if done:
                            if not rec.check("done_implies_allowed", allowed[p], klass=klass, case=case,
                                             detail={"port": p, "args": args[p], "last_cycles": list(log)}):
                                state["stop"] = True
                                continue
                        if not model.conflicts:
                            contenders = [q for g in groups if base in g for q in ios if q != p and q.partition("#")[0] in g and en[q] and allowed[q]]
                            exp_done = en[p] and allowed[p]
                            if contenders:
                                # conflicting ports: at least one of the enabled and allowed rivals (or this port) executes
                                if exp_done:
                                    anyrun = done or any(q in dones for q in contenders)
                                    if not rec.check("conflict_group_progress", anyrun, klass=klass, case=case,
                                                     detail={"port": p, "rivals": contenders, "last_cycles": list(log)}):
                                        state["stop"] = True
                            elif not rec.check("enabled_and_allowed_iff_done", done == exp_done, klass=klass, case=case,
                                               detail={"port": p, "done": done, "expected": exp_done, "args": args[p], "last_cycles": list(log)}):
                                state["stop"] = True
                        if done:
                            o = todict(out)
                            calls[p] = (args[p], o)
                            exp = model.result(p, args[p])
                            if exp is not None:
                                if not rec.check(f"result:{base}", bool(model.same(p, exp, o)), klass=klass, case=case,
                                                 detail={"port": p, "args": args[p], "observed": o, "expected": exp, "last_cycles": list(log)}):
                                    state["stop"] = True
                            rec.count(f"calls:{base}")
                    if state["stop"]:
                        return
                    exv = vals[3 * n:]
                    for (nm, expv), got in zip(model.extra_expected() if extra else [], exv):
                        got = todict(got)
                        if not rec.check(f"state:{nm}", expv == got, klass=klass, case=case,
                                         detail={"signal": nm, "observed": got, "expected": expv, "last_cycles": list(log)}):
                            state["stop"] = True
                    if state["stop"]:
                        return
                    nt = model.nontrivial(calls)
                    model.apply(calls)
                    for e in model.post_errors():
                        fail(e[0], e[1:])
                    if state["stop"]:
                        return
                except Exception:
                    if rec.viol_total:
                        return  # model derailed after a recorded violation
                    raise
                state["cycles"] += 1
                if len(calls) > 1:
                    rec.count("multi_call_cycles")
                if nt is not None:
                    rec.nontrivial(f"{prop_tag}|{nt}")
                sk = model.state_key()
                if sk is not None:
                    rec.state(f"{prop_tag}|{sk}")
            for e in model.final_errors():
                fail(e[0], e[1:])

        sim.add_testbench(drv)
        try:
            sim.run()
        except Exception:
            if not rec.viol_total:
                rec.check("simulates", False, klass=klass, case=case, detail=traceback.format_exc()[-1500:])
    rec.count("cycles", state["cycles"])
    rec.count("histories")
    return state["cycles"]
