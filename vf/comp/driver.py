"""E3 component monitor: generic hostile driver + lock-step reference model (DESIGN.md 3.3).

One driver process per simulation. Per cycle: set every enable/argument, wait for the clock edge
sampling the *settled* done/result/readiness signals, compare with the model evaluated on the state
at the start of the cycle, then step the model with the calls that were observed to execute."""

from __future__ import annotations

import collections
import random
import traceback
from typing import Any

from amaranth import Cat
from transactron.testing import SimpleTestCircuit, PysimSimulator
from transactron.testing.functions import data_const_to_dict
from transactron.utils.dependencies import DependencyContext, DependencyManager

from ..rec import Rec


def eff_ready(method) -> Any:
    """API-level readiness: AND of Body.ready over the method body and its static callee tree."""
    seen: list = []

    def rec(b):
        if any(b is x for x in seen):
            return
        seen.append(b)
        for meth in b.method_calls:
            rec(meth._body)

    rec(method._body)
    return Cat(b.ready for b in seen).all()


def todict(c):
    try:
        return data_const_to_dict(c)
    except Exception:
        return c


class Model:
    """Reference model interface (see DESIGN.md 3.3 for the conventions)."""

    ports: dict[str, float] = {}
    conflicts = False  # ports conflict with each other: only `done => allowed` is checked
    needs_dones = False  # readiness depends on the observed same-cycle run of other ports
    check_ready = True
    d: set[str] = set()

    def begin_cycle(self, rnd):  # noqa: D401
        pass

    def ready(self, p: str) -> bool:
        return True

    def args(self, p: str, rnd: random.Random):
        return {}

    def accepts(self, p: str, a) -> bool:
        return True

    def result(self, p: str, a):
        return None

    def same(self, p: str, exp, out) -> bool:
        return exp == out

    def apply(self, calls: dict[str, tuple[Any, Any]]):
        pass

    def post_errors(self) -> list:
        return []

    def extra_signals(self, dut) -> list:
        return []

    def extra_expected(self) -> list[tuple[str, Any]]:
        return []

    def state_key(self):
        return None

    def drain_ports(self) -> dict[str, float] | None:
        """Port probabilities for the drain phase (None = no drain)."""
        return None

    def final_errors(self) -> list:
        return []

    def nontrivial(self, calls) -> Any:
        return None


def resolve_port(circ, port: str):
    name, _, idx = port.partition("#")
    io = getattr(circ, name)
    return io[int(idx)] if idx else io


def run_history(rec: Rec, make, rnd: random.Random, cycles: int, case: dict, klass: str = "", drain: int = 0, prop_tag: str = "", san_rec: Rec | None = None):
    """Run one history. `make(rnd)` returns (dut, model). Returns number of monitored cycles."""
    dm = DependencyManager()
    log: collections.deque = collections.deque(maxlen=12)
    state = {"cycles": 0, "stop": False}

    def fail(cond, detail):
        rec.check(cond, False, klass=klass, case=case, detail={"what": detail, "last_cycles": list(log)})
        state["stop"] = True

    with DependencyContext(dm):
        try:
            dut, model = make(rnd)
            circ = SimpleTestCircuit(dut)
            sim = PysimSimulator(circ, max_cycles=cycles + drain + 20)
        except Exception:
            rec.check("constructs", False, klass=klass, case=case, detail=traceback.format_exc()[-1500:])
            return 0
        rec.check("constructs", True)
        if san_rec is not None:
            from ..txsan import attach
            attach(sim, san_rec, case)

        async def drv(ctx):
            ios = {p: resolve_port(circ, p) for p in model.ports}
            rdy = {p: eff_ready(ios[p].adapter.iface) for p in ios}
            sigs = []
            for p, io in ios.items():
                sigs += [io.adapter.done, io.adapter.data_out, rdy[p]]
            extra = model.extra_signals(dut)
            trig = ctx.tick().sample(*sigs, *extra)
            choices = [0.1, 0.5, 0.9, 1.0]
            probs = {p: rnd.choice(choices) * w for p, w in model.ports.items()}
            epoch_end = rnd.randint(20, 120)
            total = cycles + drain
            for cyc in range(total):
                draining = cyc >= cycles
                if draining:
                    dp = model.drain_ports()
                    if dp is None:
                        break
                    probs = dp
                elif cyc >= epoch_end:
                    probs = {p: rnd.choice(choices) * w for p, w in model.ports.items()}
                    epoch_end = cyc + rnd.randint(20, 120)
                model.begin_cycle(rnd)
                en, args = {}, {}
                for p, io in ios.items():
                    en[p] = rnd.random() < probs.get(p, 0)
                    a = model.args(p, rnd)
                    if a is None:
                        en[p] = False
                        a = {}
                    args[p] = a
                    ctx.set(io.adapter.en, en[p])
                    if a:
                        ctx.set(io.adapter.data_in, a)
                _, _, *vals = await trig
                n = len(ios)
                dones = {p for k, p in enumerate(ios) if vals[3 * k]}
                model.d = dones
                calls: dict[str, tuple[Any, Any]] = {}
                entry = {"cycle": cyc, "en": sorted(p for p in en if en[p]), "done": sorted(dones),
                         "args": {p: args[p] for p in dones}, "out": {p: todict(vals[3 * k + 1]) for k, p in enumerate(ios) if p in dones}}
                log.append(entry)
                try:
                    mready = {p: bool(model.ready(p)) for p in ios}
                    allowed = {p: mready[p] and bool(model.accepts(p, args[p])) for p in ios}
                    groups = getattr(model, "conflict_groups", [])
                    for k, p in enumerate(ios):
                        done, out, r = bool(vals[3 * k]), vals[3 * k + 1], bool(vals[3 * k + 2])
                        base = p.partition("#")[0]
                        mr = mready[p]
                        if model.check_ready:
                            rec.check(f"ready:{base}", r == mr, klass=klass, case=case,
                                      detail={"port": p, "observed_ready": r, "model_ready": mr, "last_cycles": list(log)})
                            if r != mr:
                                state["stop"] = True
                        if done:
                            if not rec.check("done_implies_allowed", allowed[p], klass=klass, case=case,
                                             detail={"port": p, "args": args[p], "last_cycles": list(log)}):
                                state["stop"] = True
                                continue
                        if not model.conflicts:
                            rivals = [q for g in groups if base in g for q in ios if q != p and q.partition("#")[0] in g and en[q] and allowed[q]]
                            exp_done = en[p] and allowed[p]
                            if rivals:
                                # conflicting ports: at least one of the enabled and allowed rivals (or this port) executes
                                if exp_done:
                                    anyrun = done or any(q in dones for q in rivals)
                                    if not rec.check("conflict_group_progress", anyrun, klass=klass, case=case,
                                                     detail={"port": p, "rivals": rivals, "last_cycles": list(log)}):
                                        state["stop"] = True
                            elif not rec.check("enabled_and_allowed_iff_done", done == exp_done, klass=klass, case=case,
                                               detail={"port": p, "done": done, "expected": exp_done, "args": args[p], "last_cycles": list(log)}):
                                state["stop"] = True
                        if done:
                            o = todict(out)
                            calls[p] = (args[p], o)
                            exp = model.result(p, args[p])
                            if exp is not None:
                                if not rec.check(f"result:{base}", bool(model.same(p, exp, o)), klass=klass, case=case,
                                                 detail={"port": p, "args": args[p], "observed": o, "expected": exp, "last_cycles": list(log)}):
                                    state["stop"] = True
                            rec.count(f"calls:{base}")
                    if state["stop"]:
                        return
                    exv = vals[3 * n:]
                    for (nm, expv), got in zip(model.extra_expected() if extra else [], exv):
                        got = todict(got)
                        if not rec.check(f"state:{nm}", expv == got, klass=klass, case=case,
                                         detail={"signal": nm, "observed": got, "expected": expv, "last_cycles": list(log)}):
                            state["stop"] = True
                    if state["stop"]:
                        return
                    nt = model.nontrivial(calls)
                    model.apply(calls)
                    for e in model.post_errors():
                        fail(e[0], e[1:])
                    if state["stop"]:
                        return
                except Exception:
                    if rec.viol_total:
                        return  # model derailed after a recorded violation
                    raise
                state["cycles"] += 1
                if len(calls) > 1:
                    rec.count("multi_call_cycles")
                if nt is not None:
                    rec.nontrivial(f"{prop_tag}|{nt}")
                sk = model.state_key()
                if sk is not None:
                    rec.state(f"{prop_tag}|{sk}")
            for e in model.final_errors():
                fail(e[0], e[1:])

        sim.add_testbench(drv)
        try:
            sim.run()
        except Exception:
            if not rec.viol_total:
                rec.check("simulates", False, klass=klass, case=case, detail=traceback.format_exc()[-1500:])
    rec.count("cycles", state["cycles"])
    rec.count("histories")
    return state["cycles"]
