"""Executable sequential reference models for library components (E3), conventions of DESIGN.md 3.3."""

from __future__ import annotations

import collections
import random

from .driver import Model


class Payload:
    """Unique ids spread over the fields of a layout (1-3 fields)."""

    def __init__(self, widths: list[int]):
        self.widths = widths
        self.total = sum(widths)
        self.n = 0
        self.layout = [(f"f{i}", w) for i, w in enumerate(widths)]
        self.unique = self.total >= 14

    def next(self) -> dict:
        self.n = (self.n + 1) % (1 << self.total)
        return self.enc(self.n)

    def enc(self, n: int) -> dict:
        out, sh = {}, 0
        for i, w in enumerate(self.widths):
            out[f"f{i}"] = (n >> sh) & ((1 << w) - 1)
            sh += w
        return out


def rand_payload(rnd: random.Random) -> Payload:
    return Payload(rnd.choice([[16], [16], [8, 8], [5, 7, 4], [1], [2], [3, 1], [20], [1, 16, 2]]))


# ------------------------------------------------------------------------------------------------
# C14: FIFO / BasicFifo
class FifoM(Model):
    shared_ports = ("peek", "clear")  # BasicFifo: "peek ... the method is nonexclusive", clear
    def __init__(self, depth: int, pay: Payload, basic: bool):
        self.depth, self.pay, self.basic = depth, pay, basic
        self.q: collections.deque = collections.deque()
        self.ports = {"read": 1, "write": 1} | ({"peek": 1, "clear": 0.04} if basic else {})
        self.written = self.delivered = self.cleared = 0
        self.wraps = 0
        self.widx = 0

    def ready(self, p):
        if p in ("read", "peek"):
            return len(self.q) > 0
        if p == "write":
            return len(self.q) < self.depth
        return True

    def args(self, p, rnd):
        return self.pay.next() if p == "write" else {}

    def result(self, p, a):
        return self.q[0] if p in ("read", "peek") else None

    def nontrivial(self, c):
        n = len(self.q)
        tags = []
        if "read" in c and "write" in c:
            tags.append("rw@full" if n == self.depth else "rw@1" if n == 1 else "rw")
        if "clear" in c and "write" in c:
            tags.append("clear+write")
        if "clear" in c and "read" in c:
            tags.append("clear+read")
        if "peek" in c and "read" in c:
            tags.append("peek+read")
        return f"d{self.depth}|{'+'.join(tags)}|n{n}" if tags else None

    def apply(self, c):
        if "read" in c:
            self.q.popleft()
            self.delivered += 1
        if "write" in c:
            self.q.append(c["write"][0])
            self.written += 1
            self.widx += 1
            if self.widx == self.depth:
                self.widx = 0
                self.wraps += 1
        if "clear" in c:
            self.cleared += len(self.q)
            self.q.clear()

    def extra_signals(self, dut):
        return [dut.level] if self.basic else []

    def extra_expected(self):
        return [("level", len(self.q))]

    def state_key(self):
        return f"d{self.depth}n{len(self.q)}"

    def drain_ports(self):
        return {"read": 1.0}

    def final_errors(self):
        if self.written != self.delivered + self.cleared + len(self.q) or len(self.q):
            return [("conservation", {"written": self.written, "delivered": self.delivered, "cleared": self.cleared, "left": len(self.q)})]
        return []


# ------------------------------------------------------------------------------------------------
# C15: WideFifo
class WideM(Model):
    shared_ports = ("peek", "clear")
    ports = {"read": 1, "peek": 1, "write": 1, "clear": 0.03}

    def __init__(self, width, depth, rw, ww, mc):
        self.width, self.depth, self.rw, self.ww, self.mc = width, depth, rw, ww, mc
        self.q: collections.deque = collections.deque()
        self.n = 0
        self.written = self.delivered = self.cleared = 0
        self.mode = 0

    def begin_cycle(self, rnd):
        if rnd.random() < 0.02:
            self.mode = rnd.randrange(4)

    def ready(self, p):
        if p in ("read", "peek"):
            return len(self.q) > 0
        if p == "write":
            return len(self.q) < self.depth
        return True

    def args(self, p, rnd):
        if p == "read":
            top = (1 << self.rw.bit_length()) - 1  # largest count representable in the argument field
            if top > self.rw and rnd.random() < 0.15:
                return {"count": rnd.randint(self.rw + 1, top)}  # min(count, level, read_width) must clamp it
            return {"count": self.rw if self.mode == 1 else rnd.randint(0, self.rw)}
        if p == "write":
            free = self.depth - len(self.q)
            if self.mode == 2 and 0 < free <= self.ww:
                cnt = free  # exact fit
            elif self.mode == 3:
                cnt = self.ww
            else:
                cnt = rnd.randint(0, self.ww)
            data = []
            for _ in range(self.ww):
                self.n = (self.n + 1) & ((1 << self.width) - 1)
                data.append(self.n)
            a = {"count": cnt, "data": data}
            if self.mc:
                a["max_count"] = cnt if self.mode == 2 else rnd.randint(cnt, self.ww)
            return a
        return {}

    def accepts(self, p, a):
        if p != "write":
            return True
        return (a["max_count"] if self.mc else a["count"]) <= self.depth - len(self.q)

    def result(self, p, a):
        if p == "read":
            k = min(a["count"], len(self.q), self.rw)
            return (k, list(self.q)[:k])
        if p == "peek":
            k = min(len(self.q), self.rw)
            return (k, list(self.q)[:k])

    def same(self, p, exp, out):
        return out["count"] == exp[0] and [out["data"][i] for i in range(exp[0])] == exp[1]

    def nontrivial(self, c):
        tags = []
        if "read" in c and "write" in c:
            tags.append("rw")
        if "read" in c and c["read"][1]["count"] < c["read"][0]["count"]:
            tags.append("clamped_over_width" if c["read"][0]["count"] > self.rw else "clamped")
        if "write" in c and c["write"][0]["count"] == self.depth - len(self.q):
            tags.append("exactfit")
        if "clear" in c and "write" in c:
            tags.append("clear+write")
        return f"{self.depth},{self.rw},{self.ww},{int(self.mc)}|{'+'.join(tags)}|n{len(self.q)}" if tags else None

    def apply(self, c):
        if "read" in c:
            for _ in range(c["read"][1]["count"]):
                self.q.popleft()
                self.delivered += 1
        if "write" in c:
            k = c["write"][0]["count"]
            d = c["write"][0]["data"]  # a list (driven calls) or an index-keyed mapping (observed calls)
            self.q.extend(d[i] for i in range(k))
            self.written += k
        if "clear" in c:
            self.cleared += len(self.q)
            self.q.clear()

    def state_key(self):
        return f"{self.depth},{self.rw},{self.ww}n{len(self.q)}"

    def drain_ports(self):
        self.mode = 1
        return {"read": 1.0}

    def final_errors(self):
        if self.written != self.delivered + self.cleared + len(self.q) or len(self.q):
            return [("conservation", {"written": self.written, "delivered": self.delivered, "cleared": self.cleared, "left": len(self.q)})]
        return []


# ------------------------------------------------------------------------------------------------
# C16: Stack
class StackM(Model):
    shared_ports = ("peek", "clear")
    ports = {"read": 1, "peek": 1, "write": 1, "clear": 0.04}

    def __init__(self, depth, pay: Payload):
        self.depth, self.pay, self.s = depth, pay, []
        self.written = self.delivered = self.cleared = 0

    def ready(self, p):
        if p in ("read", "peek"):
            return len(self.s) > 0
        if p == "write":
            return len(self.s) < self.depth
        return True

    def args(self, p, rnd):
        return self.pay.next() if p == "write" else {}

    def result(self, p, a):
        return self.s[-1] if p in ("read", "peek") else None

    def nontrivial(self, c):
        n = len(self.s)
        tags = []
        if "read" in c and "write" in c:
            tags.append("rw@full" if n == self.depth else "rw@1" if n == 1 else "rw")
        if "clear" in c and ("write" in c or "read" in c):
            tags.append("clear+" + "".join(sorted(x[0] for x in c if x in ("read", "write"))))
        return f"d{self.depth}|{'+'.join(tags)}|n{n}" if tags else None

    def apply(self, c):
        if "read" in c:
            self.s.pop()
            self.delivered += 1
        if "write" in c:
            self.s.append(c["write"][0])
            self.written += 1
        if "clear" in c:
            self.cleared += len(self.s)
            self.s.clear()

    def extra_signals(self, dut):
        return [dut.level]

    def extra_expected(self):
        return [("level", len(self.s))]

    def state_key(self):
        return f"d{self.depth}n{len(self.s)}"

    def drain_ports(self):
        return {"read": 1.0}

    def final_errors(self):
        if self.written != self.delivered + self.cleared + len(self.s) or len(self.s):
            return [("conservation", {"written": self.written, "delivered": self.delivered, "cleared": self.cleared, "left": len(self.s)})]
        return []


# ------------------------------------------------------------------------------------------------
# C17: Forwarder / Pipe
class SlotM(Model):
    shared_ports = ("peek", "clear")
    ports = {"read": 1, "peek": 1, "write": 1, "clear": 0.08}
    needs_dones = True

    def __init__(self, kind: str, pay: Payload):
        self.kind, self.pay, self.v, self.warg = kind, pay, None, None
        self.written = self.delivered = self.cleared = 0
        self.d = set()

    def args(self, p, rnd):
        if p == "write":
            self.warg = self.pay.next()
            return self.warg
        return {}

    def ready(self, p):
        full = self.v is not None
        if self.kind == "fwd":
            if p == "write":
                return not full
            if p in ("read", "peek"):
                return full or "write" in self.d
            return True
        if p in ("read", "peek"):
            return full
        if p == "write":
            return (not full) or "read" in self.d
        return True

    def result(self, p, a):
        if p in ("read", "peek"):
            return self.v if self.v is not None else self.warg

    def nontrivial(self, c):
        if len(c) < 2:
            return None
        return f"{self.kind}|{'+'.join(sorted(c))}|{'full' if self.v is not None else 'empty'}"

    def apply(self, c):
        passthrough = self.kind == "fwd" and self.v is None and "read" in c and "write" in c
        if "read" in c:
            self.delivered += 1
            self.v = None
        if "write" in c:
            self.written += 1
            if not passthrough:
                self.v = c["write"][0]
        if "clear" in c:
            if self.v is not None:
                self.cleared += 1
            self.v = None

    def state_key(self):
        return f"{self.kind}{'F' if self.v is not None else 'E'}{''.join(sorted(x[0] for x in self.d))}"

    def drain_ports(self):
        return {"read": 1.0}

    def final_errors(self):
        left = 0 if self.v is None else 1
        if self.written != self.delivered + self.cleared + left or left:
            return [("conservation", {"written": self.written, "delivered": self.delivered, "cleared": self.cleared, "left": left})]
        return []


# ------------------------------------------------------------------------------------------------
# C20: Semaphore
class SemM(Model):
    shared_ports = ("clear",)
    ports = {"acquire": 1, "release": 1, "clear": 0.06}

    def __init__(self, mx):
        self.mx, self.c = mx, 0

    def ready(self, p):
        if p == "acquire":
            return self.c < self.mx
        if p == "release":
            return self.c > 0
        return True

    def nontrivial(self, c):
        return f"m{self.mx}c{self.c}|{'+'.join(sorted(c))}" if c else None

    def apply(self, c):
        self.c += ("acquire" in c) - ("release" in c)
        if "clear" in c:
            self.c = 0

    def extra_signals(self, dut):
        return [dut.count]

    def extra_expected(self):
        return [("count", self.c)]

    def state_key(self):
        return f"m{self.mx}c{self.c}"


# ------------------------------------------------------------------------------------------------
# C24: ContentAddressableMemory
class CamM(Model):
    ports = {"read": 1, "write": 1, "remove": 1, "push": 1}

    def __init__(self, n, keybits, nkeys, two_fields=False):
        self.n, self.dct, self.keybits, self.nkeys = n, {}, keybits, nkeys
        self.two = two_fields  # the key is a structure {a, b}: keys that agree in `a` but differ in `b` must be told apart
        self.keys = None
        self.hot = 0

    def ready(self, p):
        return len(self.dct) < self.n if p == "push" else True

    def begin_cycle(self, rnd):
        if self.keys is None:
            self.keys = rnd.sample(range(1 << self.keybits), self.nkeys)
        self.hot = rnd.choice(self.keys)
        self.same_key = rnd.random() < 0.3

    def args(self, p, rnd):
        k = self.hot if self.same_key else rnd.choice(self.keys)
        if p == "push":
            free = [x for x in self.keys if x not in self.dct]
            if not free:
                return None
            if k not in free:
                k = rnd.choice(free)
            return {"addr": self.key(k), "data": {"d": rnd.randrange(1, 256)}}
        if p == "write":
            return {"addr": self.key(k), "data": {"d": rnd.randrange(1, 256)}}
        return {"addr": self.key(k)}

    def key(self, k):
        return {"a": k >> 1, "b": k & 1} if self.two else {"a": k}

    def unkey(self, a):
        return (a["a"] << 1) | a["b"] if self.two else a["a"]

    def result(self, p, a):
        k = self.unkey(a["addr"])
        if p == "read":
            return ("r", k in self.dct, self.dct.get(k))
        if p == "write":
            return ("w", k in self.dct)

    def same(self, p, exp, out):
        if exp[0] == "r":
            return bool(out["not_found"]) == (not exp[1]) and (not exp[1] or out["data"]["d"] == exp[2])
        return bool(out["not_found"]) == (not exp[1])

    def nontrivial(self, c):
        if len(c) < 2:
            return None
        ks = [self.unkey(a["addr"]) for a, _ in c.values()]
        samek = len(set(ks)) < len(ks)
        return f"n{self.n}|{'+'.join(sorted(c))}|{'samekey' if samek else 'diff'}|sz{len(self.dct)}"

    def apply(self, c):
        if "write" in c and self.unkey(c["write"][0]["addr"]) in self.dct:
            self.dct[self.unkey(c["write"][0]["addr"])] = c["write"][0]["data"]["d"]
        if "remove" in c:
            self.dct.pop(self.unkey(c["remove"][0]["addr"]), None)
        if "push" in c:
            self.dct[self.unkey(c["push"][0]["addr"])] = c["push"][0]["data"]["d"]

    def state_key(self):
        return f"n{self.n}sz{len(self.dct)}"


# ------------------------------------------------------------------------------------------------
# C25: PriorityEncoderAllocator
class PEAllocM(Model):
    shared_ports = ("clear",)
    conflict_groups = [{"replace", "clear"}]

    def __init__(self, n, aw, fw, init):
        self.n, self.aw, self.fw = n, aw, fw
        self.init = init & ((1 << n) - 1)
        self.free = self.init
        self.ports = {f"alloc#{i}": 1 for i in range(aw)} | {f"free#{i}": 1 for i in range(fw)} | {"peek": 1, "clear": 0.02, "replace": 0.02}
        self.pool = None
        self.live: set[int] = set(k for k in range(n) if not self.init >> k & 1)

    def begin_cycle(self, rnd):
        self.pool = None

    def ready(self, p):
        nm, _, i = p.partition("#")
        return bin(self.free).count("1") >= int(i) + 1 if nm == "alloc" else True

    def args(self, p, rnd):
        nm, _, i = p.partition("#")
        if nm == "free":
            if self.pool is None:
                al = [k for k in range(self.n) if not self.free >> k & 1]
                rnd.shuffle(al)
                self.pool = al
            if not self.pool:
                return None
            return {"ident": self.pool.pop()}
        if nm == "replace":
            return {"mask": rnd.getrandbits(self.n)}
        return {}

    def result(self, p, a):
        nm, _, i = p.partition("#")
        if nm == "alloc":
            return ("a", int(i))
        if nm == "peek":
            return ("mask", self.free)

    def same(self, p, exp, out):
        if exp[0] == "mask":
            return out["mask"] == exp[1]
        # the statement only demands: the identifier is free at cycle start (distinctness is checked in post_errors)
        return 0 <= out["ident"] < self.n and bool(self.free >> out["ident"] & 1)

    def nontrivial(self, c):
        na = sum(1 for p in c if p.startswith("alloc"))
        nf = sum(1 for p in c if p.startswith("free"))
        if na + nf < 2 and "clear" not in c and "replace" not in c:
            return None
        return f"{self.n},{self.aw},{self.fw}|a{na}f{nf}{'c' if 'clear' in c else ''}{'r' if 'replace' in c else ''}|free{bin(self.free).count('1')}"

    def apply(self, c):
        self.errs = []
        ids = [o["ident"] for p, (a, o) in c.items() if p.startswith("alloc")]
        if len(set(ids)) != len(ids):
            self.errs.append(("distinct_idents", ids))
        f = self.free
        for i in ids:
            f &= ~(1 << i)
        for p, (a, o) in c.items():
            if p.startswith("free"):
                f |= 1 << a["ident"]
        if "replace" in c:
            f = c["replace"][0]["mask"]
        if "clear" in c:
            f = self.init
        self.free = f

    def post_errors(self):
        return self.errs

    def state_key(self):
        return f"{self.n}:{self.free}" if self.n <= 8 else f"{self.n}:{bin(self.free).count('1')}"


# ------------------------------------------------------------------------------------------------
# C26: PreservedOrderAllocator
class POAllocM(Model):
    shared_ports = ("order", "clear")
    ports = {"alloc": 1, "free": 0.6, "free_idx": 0.6, "order": 1, "clear": 0.03}
    conflict_groups = [{"free", "free_idx"}]

    def __init__(self, n):
        self.n, self.ord = n, []

    def begin_cycle(self, rnd):
        self.mode = rnd.random()

    def ready(self, p):
        return len(self.ord) < self.n if p == "alloc" else True

    def pick_idx(self, rnd):
        k = len(self.ord)
        if self.mode < 0.25:
            return 0
        if self.mode < 0.5:
            return k - 1
        return rnd.randrange(k)

    def args(self, p, rnd):
        if p == "free":
            return {"ident": self.ord[self.pick_idx(rnd)]} if self.ord else None
        if p == "free_idx":
            return {"idx": self.pick_idx(rnd)} if self.ord else None
        return {}

    def result(self, p, a):
        if p == "order":
            return ("o", list(self.ord))
        if p == "alloc":
            return ("a",)

    def same(self, p, exp, out):
        if exp[0] == "o":
            perm = [out["order"][i] for i in range(self.n)]
            return out["used"] == len(exp[1]) and perm[: len(exp[1])] == exp[1] and sorted(perm) == list(range(self.n))
        return out["ident"] not in self.ord and 0 <= out["ident"] < self.n

    def nontrivial(self, c):
        k = [p for p in c if p != "order"]
        if len(k) < 2:
            return None
        return f"n{self.n}|{'+'.join(sorted(k))}|used{len(self.ord)}"

    def apply(self, c):
        # identifiers designated on the state at the start of the cycle (free and free_idx conflict in the real component, but the
        # model also defines the result should both ever run: exactly the designated identifiers are removed)
        gone = set()
        if "free" in c:
            gone.add(c["free"][0]["ident"])
        if "free_idx" in c and c["free_idx"][0]["idx"] < len(self.ord):
            gone.add(self.ord[c["free_idx"][0]["idx"]])
        new = [x for x in self.ord if x not in gone]
        if "alloc" in c:
            new.append(c["alloc"][1]["ident"])
        if "clear" in c:
            new = []
        self.ord = new

    def state_key(self):
        return f"n{self.n}:{self.ord}" if self.n <= 4 else f"n{self.n}:{len(self.ord)}"


# ------------------------------------------------------------------------------------------------
# C27: CircularAllocator
class CircM(Model):
    shared_ports = ("clear",)
    ports = {"alloc": 1, "free": 1, "clear": 0.03}

    def __init__(self, n, ma, mf, validate=True):
        self.n, self.ma, self.mf, self.validate = n, ma, mf, validate
        self.start, self.cnt = 0, 0

    def ready(self, p):
        if p == "alloc":
            return self.cnt < self.n
        if p == "free":
            return self.cnt > 0
        return True

    def begin_cycle(self, rnd):
        self.mode = rnd.random()

    def args(self, p, rnd):
        if p == "clear":
            return {}
        mx = self.ma if p == "alloc" else self.mf
        cnt = mx if self.mode < 0.2 else rnd.randint(0, mx)
        if not self.validate or (mx == 1):
            # documented precondition when no validation hardware is present
            lim = (self.n - self.cnt) if p == "alloc" else self.cnt
            cnt = min(cnt, lim)
        return {"count": cnt}

    def accepts(self, p, a):
        if p == "alloc":
            return self.cnt + a["count"] <= self.n
        if p == "free":
            return a["count"] <= self.cnt
        return True

    def result(self, p, a):
        if p == "alloc":
            e = (self.start + self.cnt) % self.n
            return ([(e + i) % self.n for i in range(a["count"])], (e + a["count"]) % self.n)
        if p == "free":
            return ([(self.start + i) % self.n for i in range(a["count"])], (self.start + a["count"]) % self.n)

    def same(self, p, exp, out):
        key = "new_end_idx" if p == "alloc" else "new_start_idx"
        return [out["idents"][i] for i in range(len(exp[0]))] == exp[0] and out[key] == exp[1]

    def nontrivial(self, c):
        a = c["alloc"][0]["count"] if "alloc" in c else 0
        f = c["free"][0]["count"] if "free" in c else 0
        tags = []
        if a and f:
            tags.append("a+f")
        if a and (self.start + self.cnt) % self.n + a >= self.n:
            tags.append("wrap_end")
        if f and self.start + f >= self.n:
            tags.append("wrap_start")
        if "clear" in c and (a or f):
            tags.append("clear+")
        if a and self.cnt + a == self.n:
            tags.append("fills")
        if f and f == self.cnt:
            tags.append("empties")
        return f"{self.n},{self.ma},{self.mf}|{'+'.join(tags)}" if tags else None

    def apply(self, c):
        a = c["alloc"][0]["count"] if "alloc" in c else 0
        f = c["free"][0]["count"] if "free" in c else 0
        self.start = (self.start + f) % self.n
        self.cnt += a - f
        if "clear" in c:
            self.start = self.cnt = 0

    def extra_signals(self, dut):
        return [dut.allocated, dut.start_idx, dut.end_idx]

    def extra_expected(self):
        return [("allocated", self.cnt), ("start_idx", self.start), ("end_idx", (self.start + self.cnt) % self.n)]

    def state_key(self):
        return f"{self.n}:{self.start}:{self.cnt}"


# ------------------------------------------------------------------------------------------------
# C21: MemoryBank
class MemBankM(Model):
    def __init__(self, depth, width, rp, wp, transparent, ror, gran, counters=None, struct=False, elem=None):
        self.depth, self.width, self.rp, self.wp, self.tr, self.ror, self.gran = depth, width, rp, wp, transparent, ror, gran
        self.struct = struct  # rows are a two-field structure {lo, hi} (True) or an array of elements ("array") instead of a plain integer
        self.elem = elem  # (element width, element count) of array rows; `gran` is always given in bits
        self.mem = [0] * depth
        self.q = [collections.deque() for _ in range(rp)]
        self.ports = {}
        for i in range(rp):
            self.ports[f"read_req#{i}"] = 1
            self.ports[f"read_resp#{i}"] = 1
        for j in range(wp):
            self.ports[f"write#{j}"] = 1
        self.ng = 1 if gran is None else width // gran
        self.errs: list = []
        self.stats = counters if counters is not None else collections.Counter()

    def begin_cycle(self, rnd):
        self.waddrs = None
        self.hot = rnd.random() < 0.5

    def ready(self, p):
        n, _, i = p.partition("#")
        i = int(i)
        if n == "read_req":
            return len(self.q[i]) < 2
        if n == "read_resp":
            return len(self.q[i]) > 0
        return True

    def pending_addrs(self):
        return [e[2] for q in self.q for e in q]

    def args(self, p, rnd):
        n, _, i = p.partition("#")
        i = int(i)
        if n == "read_req":
            return {"addr": rnd.randrange(self.depth)}
        if n == "write":
            if self.waddrs is None:
                self.waddrs = rnd.sample(range(self.depth), min(self.wp, self.depth))
                pend = self.pending_addrs()
                if self.hot and pend:
                    # aim the first write at the address of a pending response (bypass / overflow tracking)
                    a = rnd.choice(pend)
                    if a in self.waddrs:
                        self.waddrs.remove(a)
                    else:
                        self.waddrs.pop()
                    self.waddrs.insert(0, a)
            if i >= len(self.waddrs):
                return None
            a = {"addr": self.waddrs[i], "data": self.enc(rnd.getrandbits(self.width))}
            if self.gran is not None:
                a["mask"] = rnd.getrandbits(self.ng)
            return a
        return {}

    def enc(self, v):
        if not self.struct:
            return v
        if self.struct == "array":
            ew, n = self.elem
            return [(v >> (k * ew)) & ((1 << ew) - 1) for k in range(n)]
        h = self.width // 2
        return {"lo": v & ((1 << h) - 1), "hi": v >> h}

    def dec(self, d):
        if isinstance(d, int):
            return d
        if self.struct == "array":
            ew, n = self.elem
            return sum(int(d[k]) << (k * ew) for k in range(n))  # a list (driven) or an index-keyed mapping (observed)
        return d["lo"] | (d["hi"] << (self.width // 2))

    def wr(self, mem, a):
        if self.gran is None:
            mem[a["addr"]] = self.dec(a["data"]) if hasattr(self, "dec") else a["data"]
            return
        v = mem[a["addr"]]
        data = self.dec(a["data"]) if hasattr(self, "dec") else a["data"]
        for g in range(self.ng):
            if a["mask"] >> g & 1:
                m = ((1 << self.gran) - 1) << (g * self.gran)
                v = (v & ~m) | (data & m)
        mem[a["addr"]] = v

    def nontrivial(self, c):
        tags = set()
        pend = set(self.pending_addrs())
        for p, (a, _) in c.items():
            if p.startswith("write"):
                if a["addr"] in pend:
                    tags.add("write_hits_pending")
                if self.gran is not None and 0 < a["mask"] < (1 << self.ng) - 1:
                    tags.add("partial_mask")
                for q, (b, _) in c.items():
                    if q.startswith("read_req") and b["addr"] == a["addr"]:
                        tags.add("write_and_request_same_row")
        if any(len(q) == 2 for q in self.q):
            tags.add("overflow_buffer_occupied")
        for t in tags:
            self.stats[t] += 1
        if not tags:
            return None
        return f"tr{int(self.tr)}ror{int(self.ror)}g{self.gran}|rp{self.rp}wp{self.wp}|{'+'.join(sorted(tags))}"

    def apply(self, c):
        after = list(self.mem)
        for p, (a, _) in c.items():
            if p.startswith("write"):
                self.wr(after, a)
        self.errs = []
        for i in range(self.rp):
            if f"read_resp#{i}" in c:
                e = self.q[i].popleft()
                out = self.dec(c[f"read_resp#{i}"][1]["data"])
                exp = e[1] if e[0] == "v" else (after if self.tr else self.mem)[e[2]]
                self.stats["responses_checked"] += 1
                if out != exp:
                    self.errs.append(("result:read_resp", {"port": i, "observed": out, "expected": exp, "requested_addr": e[2],
                                                          "semantics": "response-time" if e[0] == "a" else "request-time"}))
            if f"read_req#{i}" in c:
                ad = c[f"read_req#{i}"][0]["addr"]
                self.q[i].append(("a", None, ad) if self.ror else ("v", (after if self.tr else self.mem)[ad], ad))
        self.mem = after

    def post_errors(self):
        return self.errs

    def state_key(self):
        return f"tr{int(self.tr)}ror{int(self.ror)}|" + ",".join(str(len(q)) for q in self.q)

    def drain_ports(self):
        return {f"read_resp#{i}": 1.0 for i in range(self.rp)}

    def final_errors(self):
        left = sum(len(q) for q in self.q)
        return [("conservation", {"responses_never_delivered": left})] if left else []


# ------------------------------------------------------------------------------------------------
# C22: AsyncMemoryBank
class AsyncMemM(Model):
    def __init__(self, depth, width, rp, wp, gran):
        self.depth, self.width, self.rp, self.wp, self.gran = depth, width, rp, wp, gran
        self.mem = [0] * depth
        self.ports = {f"read#{i}": 1 for i in range(rp)} | {f"write#{j}": 1 for j in range(wp)}
        self.ng = 1 if gran is None else width // gran
        self.last_written = None

    def begin_cycle(self, rnd):
        self.waddrs = None
        self.hot = rnd.random() < 0.5

    def args(self, p, rnd):
        n, _, i = p.partition("#")
        i = int(i)
        if n == "read":
            if self.hot and self.last_written is not None and rnd.random() < 0.6:
                return {"addr": self.last_written}
            return {"addr": rnd.randrange(self.depth)}
        if self.waddrs is None:
            self.waddrs = rnd.sample(range(self.depth), min(self.wp, self.depth))
        if i >= len(self.waddrs):
            return None
        a = {"addr": self.waddrs[i], "data": rnd.getrandbits(self.width)}
        if self.gran is not None:
            a["mask"] = rnd.getrandbits(self.ng)
        return a

    def result(self, p, a):
        if p.startswith("read"):
            return {"data": self.mem[a["addr"]]}

    def nontrivial(self, c):
        tags = set()
        for p, (a, _) in c.items():
            if p.startswith("write"):
                if self.gran is not None and 0 < a["mask"] < (1 << self.ng) - 1:
                    tags.add("partial_mask")
                for q, (b, _) in c.items():
                    if q.startswith("read") and b["addr"] == a["addr"]:
                        tags.add("read_and_write_same_row")
            elif a["addr"] == self.last_written:
                tags.add("read_of_last_written_row")
        return f"d{self.depth}g{self.gran}rp{self.rp}wp{self.wp}|{'+'.join(sorted(tags))}" if tags else None

    def apply(self, c):
        for p, (a, _) in c.items():
            if p.startswith("write"):
                MemBankM.wr(self, self.mem, a)
                self.last_written = a["addr"]
