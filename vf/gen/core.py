"""E2: random design generator over an own IR, emitter of real Transactron objects, independent reference semantics
and the per-cycle oracles of C01-C08, C10, C11 (DESIGN.md section 3).

IR
--
bodies        B(kind 't'|'m', idx): stmts, parent (nesting), pos (control position), ready bit, optional Forwarder-style ready
statements    ("call", Site) | ("if", sid, cond bits, alternatives, else) | ("switch", sid, selector bits, cases, default)
              | ("fsm", sid, states, transition bits) | ("body", B) | ("wit", witness)
positions     tuple of edges ((kind, structure id[, ...]), alternative index); kind in if / sw / fsm / en / body
"""

from __future__ import annotations

import collections
import itertools
import random
import traceback

import networkx
from amaranth import C, Cat, Elaboratable, Module, Mux, Signal
from amaranth.hdl._ir import build_netlist
from amaranth.sim import Simulator
from transactron import Method, TModule, Transaction, TransactionManager, TransactronContextElaboratable
from transactron.core import Priority
from transactron.core.schedulers import eager_deterministic_cc_scheduler, trivial_roundrobin_cc_scheduler
from transactron.utils.dependencies import DependencyContext, DependencyManager

from ..rec import Rec

EXCL_KINDS = ("if", "sw", "fsm")


class B:
    def __init__(self, kind, idx):
        self.kind, self.idx, self.stmts, self.parent = kind, idx, [], None
        self.key = (kind, idx)
        self.pos = ()
        self.rdy = None
        self.rdy_or = None


class Site:
    pass


class Design:
    pass


# ------------------------------------------------------------------------------------------------------------------
# generation
def gen(rnd: random.Random, opts: dict) -> Design:
    D = Design()
    D.nbits = D.nins = D.sid = D.wid = D.struct = 0
    D.nm = rnd.randint(2, opts.get("max_methods", 5))
    D.nt = rnd.randint(2, opts.get("max_transactions", 4))
    D.meth = []
    for i in range(D.nm):
        has_in = rnd.random() < 0.6
        nonex = rnd.random() < (0.45 if not has_in else 0.3) * opts.get("nonex_weight", 1.0)
        comb = None
        if nonex and has_in:
            comb = rnd.choice(["or", "sum", "default", "sum_plus_count", "sum_plus_count"])
        D.meth.append(dict(has_in=has_in, nonex=nonex, validate=None, combiner=comb, single_caller=False))
    D.bodies, D.sites, D.wits = {}, [], []
    D.budget = opts.get("budget", 24)
    D.fsms = {}

    def bit():
        D.nbits += 1
        return D.nbits - 1

    def inp():
        D.nins += 1
        return D.nins - 1

    D.pending_methods = list(range(D.nm))
    rnd.shuffle(D.pending_methods)
    D.tnext = 0
    p_call = opts.get("p_call", 0.45)
    p_struct = opts.get("p_struct", 0.3)

    def mkbody(kind, idx, pos, depth, minidx):
        b = B(kind, idx)
        b.pos = pos
        b.rdy = bit()
        D.bodies[b.key] = b
        b.stmts = mkstmts(b, pos, depth, minidx, 0)
        return b

    def mkstmts(b, pos, depth, minidx, cdepth):
        out = []
        for _ in range(rnd.randint(0, 3 if cdepth == 0 else 2)):
            if D.budget <= 0:
                break
            D.budget -= 1
            r = rnd.random()
            callees = list(range(minidx, D.nm))
            if r < p_call and callees:
                s = Site()
                s.sid = D.sid
                D.sid += 1
                s.callee = rnd.choice(callees)
                s.caller = b
                s.en = bit() if rnd.random() < 0.3 else None
                s.pos = pos + ((("en", s.sid), 0),) if s.en is not None else pos
                s.via = rnd.choice([0, 0, 0, 1, 2]) if opts.get("aliases", True) else 0
                md = D.meth[s.callee]
                if md["has_in"]:
                    o = [("in", None), ("const", rnd.randrange(16))]
                    if b.kind == "m" and D.meth[b.idx]["has_in"]:
                        o.append(("callerarg", None))
                    s.arg = rnd.choice(o)
                    if s.arg[0] == "in":
                        s.arg = ("in", inp())
                else:
                    s.arg = None
                D.sites.append(s)
                out.append(("call", s))
            elif r < p_call + p_struct * 0.5 and cdepth < 3:
                sid = D.struct
                D.struct += 1
                n = rnd.randint(1, 3)
                conds = [bit() for _ in range(n)]
                alts = [mkstmts(b, pos + ((("if", sid), k),), depth, minidx, cdepth + 1) for k in range(n)]
                els = mkstmts(b, pos + ((("if", sid), n),), depth, minidx, cdepth + 1) if rnd.random() < 0.6 else None
                out.append(("if", sid, conds, alts, els))
            elif r < p_call + p_struct * 0.8 and cdepth < 3:
                sid = D.struct
                D.struct += 1
                sel = (bit(), bit())
                vals = rnd.sample(range(4), rnd.randint(1, 3))
                cases = [(v, mkstmts(b, pos + ((("sw", sid), k),), depth, minidx, cdepth + 1)) for k, v in enumerate(vals)]
                dflt = mkstmts(b, pos + ((("sw", sid), len(vals)),), depth, minidx, cdepth + 1) if rnd.random() < 0.5 else None
                out.append(("switch", sid, sel, cases, dflt))
            elif r < p_call + p_struct and cdepth < 2 and opts.get("fsm", True):
                sid = D.struct
                D.struct += 1
                n = rnd.randint(2, 3)
                trans = [bit() for _ in range(n)]
                states = [mkstmts(b, pos + ((("fsm", sid), k),), depth, minidx, cdepth + 1) for k in range(n)]
                D.fsms[sid] = n
                if rnd.random() < opts.get("p_nested_fsm", 0.3):
                    # forced layout: an FSM nested in the first state, and witnesses in a *later* outer state (declared after the nested FSM)
                    sid2 = D.struct
                    D.struct += 1
                    tr2 = [bit(), bit()]
                    inner = []
                    for k2 in range(2):
                        w = [D.wid, rnd.choice(["comb", "av"]), b, pos + ((("fsm", sid), 0), (("fsm", sid2), k2))]
                        D.wid += 1
                        D.wits.append(w)
                        inner.append([("wit", w)])
                    D.fsms[sid2] = 2
                    states[0].append(("fsm", sid2, inner, tr2))
                    for dom in ("av", "comb"):
                        w = [D.wid, dom, b, pos + ((("fsm", sid), n - 1),)]
                        D.wid += 1
                        D.wits.append(w)
                        states[n - 1].append(("wit", w))
                out.append(("fsm", sid, states, trans))
            elif r < p_call + p_struct + 0.12 and depth < opts.get("max_nesting", 2):
                if rnd.random() < 0.5 or not [j for j in D.pending_methods if j >= minidx]:
                    idx = D.nt + D.tnext
                    D.tnext += 1
                    kind, mi = "t", minidx
                else:
                    idx = rnd.choice([j for j in D.pending_methods if j >= minidx])
                    D.pending_methods.remove(idx)
                    kind, mi = "m", idx + 1
                nb = mkbody(kind, idx, pos + ((("body", kind, idx), 0),), depth + 1, mi)
                nb.parent = b
                out.append(("body", nb))
            elif r < 0.97:
                w = [D.wid, rnd.choice(["comb", "av", "top", "sync"]), b, pos]
                D.wid += 1
                D.wits.append(w)
                out.append(("wit", w))
        return out

    order = [mkbody("t", i, ((("body", "t", i), 0),), 0, 0) for i in range(D.nt)]
    while D.pending_methods:
        j = min(D.pending_methods)
        D.pending_methods.remove(j)
        D.budget += 3
        order.append(mkbody("m", j, ((("body", "m", j), 0),), 0, j + 1))
    rnd.shuffle(order)
    D.order = order
    D.nmod = rnd.choice([1, 2, 2, 3])  # the top-level bodies are spread over this many elaboratables, each with its own TModule
    D.deford = {}

    def pre(b):
        D.deford[b.key] = len(D.deford)
        for st in walk(b.stmts):
            if st[0] == "body":
                pre(st[1])

    for b in order:
        pre(b)
    # argument validation on methods with input whose sites all use in/const args (validated args must not depend on run/data_in)
    for j, md in enumerate(D.meth):
        ss = [s for s in D.sites if s.callee == j]
        if md["has_in"] and ss and all(s.arg[0] != "callerarg" for s in ss) and rnd.random() < opts.get("p_validate", 0.5):
            md["validate"] = (inp(), rnd.choice(["eq", "ne", "bit0"]))
    keys = list(D.bodies)
    D.confl, D.sb = [], []
    for _ in range(rnd.randint(0, opts.get("max_conflicts", 2))):
        a, b2 = rnd.sample(keys, 2)
        D.confl.append((a, b2, rnd.choice([Priority.UNDEFINED, Priority.LEFT, Priority.RIGHT])))
    for _ in range(rnd.randint(0, opts.get("max_sb", 2))):
        a, b2 = rnd.sample(keys, 2)
        if D.deford[a] > D.deford[b2]:
            a, b2 = b2, a
        D.sb.append((a, b2, rnd.random() < opts.get("p_rd", 0.4)))
    if rnd.random() < opts.get("p_rel_order", 0.15) and len(keys) >= 3:
        # forced layout class: one body is the start of an ordinary relation (declared first) AND of a ready-dependent schedule_before (declared
        # later): every relation of a body must be looked at, whatever was declared before it
        rds = [x for x in D.sb if x[2]]
        if rds:
            a, b2, _ = rnd.choice(rds)
        else:
            a, b2 = rnd.sample(keys, 2)
            if D.deford[a] > D.deford[b2]:
                a, b2 = b2, a
            D.sb.append((a, b2, True))
        others = [k for k in keys if k not in (a, b2)]
        D.confl.append((a, rnd.choice(others), Priority.UNDEFINED))
        D.rel_order_pattern = True
    if rnd.random() < opts.get("p_mixed", 0.25):
        add_mixed_chain_pattern(D, rnd)
        keys = list(D.bodies)
    if rnd.random() < opts.get("p_nonex_depth", 0.1):
        add_nonexclusive_depth_pattern(D, rnd)
        keys = list(D.bodies)
    if rnd.random() < opts.get("p_triangle", 0.1):
        add_priority_triangle_pattern(D, rnd)
        keys = list(D.bodies)
    if rnd.random() < opts.get("p_double_conflict", 0.1):
        add_double_conflict_pattern(D, rnd)
        keys = list(D.bodies)
    if rnd.random() < opts.get("p_lifted_priority", 0.1):
        add_lifted_priority_pattern(D, rnd)
        keys = list(D.bodies)
    if rnd.random() < opts.get("p_deepchain", 0.15):
        add_deep_chain_pattern(D, rnd)
        keys = list(D.bodies)
    if rnd.random() < opts.get("p_vdiamond", 0.15):
        add_validated_diamond_pattern(D, rnd)
        keys = list(D.bodies)
    if rnd.random() < opts.get("p_elif_diamond", 0.15):
        add_elif_diamond_pattern(D, rnd)
        keys = list(D.bodies)
    for k in keys:  # Forwarder-style ready: ready = bit | other.run with other.schedule_before(this)
        if rnd.random() < opts.get("p_forwarder", 0.15):
            earlier = [x for x in keys if D.deford[x] < D.deford[k] and x != k]
            if earlier:
                o = rnd.choice(earlier)
                D.bodies[k].rdy_or = o
                D.sb.append((o, k, False))
    add_module_level_wrappers(D, rnd, opts.get("p_modwrap", 0.25))
    if rnd.random() < opts.get("p_xmod_conflict", 0.1):
        D.xmod_shared_call = bool(opts.get("xmod_shared_call", False))
        if len(getattr(D, "fixed_chunks", [])) < 2 and opts.get("xmod_shared_call") and len(D.order) >= 2:
            # the class needs two elaboratables: split the single one, never between two bodies wrapped into one module-level If/Else
            keys_ = [b.key for b in D.order]
            cuts = [i for i in range(1, len(keys_))
                    if not (keys_[i - 1] in D.modwrap and keys_[i] in D.modwrap and D.modwrap[keys_[i - 1]][0] == D.modwrap[keys_[i]][0])]
            if cuts:
                cut = min(cuts, key=lambda i: abs(i - len(keys_) // 2))
                D.nmod = 2
                D.fixed_chunks = [keys_[:cut], keys_[cut:]]
        add_cross_module_conflict_pattern(D, rnd)
    if rnd.random() < opts.get("p_same_trans_conflict", 0.0):
        add_same_transaction_conflict_pattern(D, rnd)
    if rnd.random() < opts.get("p_excl_order", 0.05):
        add_exclusive_ordered_pair_pattern(D, rnd)
    if opts.get("p_case_after_if", 0.0) and rnd.random() < opts["p_case_after_if"]:
        add_case_after_if_pattern(D, rnd)
    return D


def add_exclusive_ordered_pair_pattern(D, rnd):
    """Forced layout class: two transactions that are mutually exclusive by control flow (they call methods defined in the two alternatives of
    one module-level If/Else), conflict through a shared exclusive method, and are ORDERED by a Forwarder-style ready dependency
    (writer.ready = bit | reader.run, reader.schedule_before(writer)). The reader has more conflicts than the writer, so only the ordering
    relation keeps it first; if the order is lost the circuit has a combinational loop reader.run -> writer.ready -> writer.run -> reader.run."""
    a_idx, b_idx, l_idx = D.nm, D.nm + 1, D.nm + 2
    D.nm += 3
    for idx in (a_idx, b_idx, l_idx):
        D.meth.append(dict(has_in=False, nonex=False, validate=None, combiner=None, single_caller=False))
        b = B("m", idx)
        b.pos = ((("body", "m", idx), 0),)
        D.nbits += 1
        b.rdy = D.nbits - 1
        D.bodies[b.key] = b
        D.order.append(b)
        D.deford[b.key] = len(D.deford)
    sid = D.struct
    D.struct += 1
    D.nbits += 1
    cbit = D.nbits - 1
    for idx, alt in ((a_idx, 0), (b_idx, 1)):
        D.modwrap[("m", idx)] = (sid, alt, cbit)
        add_prefix(D.bodies[("m", idx)], ((("if", sid), alt),))
    first = D.nt + D.tnext
    D.tnext += 3
    ts = []
    for k in range(3):
        b = B("t", first + k)
        b.pos = ((("body", "t", first + k), 0),)
        D.nbits += 1
        b.rdy = D.nbits - 1
        D.bodies[b.key] = b
        D.order.append(b)
        D.deford[b.key] = len(D.deford)
        ts.append(b)
    reader, writer, other = ts
    reader.stmts += [("call", new_site(D, reader, a_idx)), ("call", new_site(D, reader, l_idx))]
    writer.stmts += [("call", new_site(D, writer, b_idx)), ("call", new_site(D, writer, l_idx))]
    writer.rdy_or = reader.key
    D.sb.append((reader.key, writer.key, False))
    D.confl.append((reader.key, other.key, Priority.UNDEFINED))
    D.count_excl_ordered = True
    return True


def add_case_after_if_pattern(D, rnd):
    """Forced layout class (seeded defect C02e): the FIRST body of an elaboratable is defined under the first control structure of the module
    scope (an `If`), a later body of the same elaboratable in a `Case` of a later, independent module-level `Switch`, and the two are related
    by add_conflict. Alternatives of different structures of one scope are not mutually exclusive: the conflict must be kept. (A control-path
    edge of the Case that loses its structure index makes the pair look like two alternatives of the first structure.)"""
    D.modsw = getattr(D, "modsw", {})
    for chunk in module_chunks(D):
        if len(chunk) < 2:
            continue
        a = chunk[0]
        wa = D.modwrap.get(a.key)
        if wa is not None and wa[1] != 0:
            continue
        cands = [b for b in chunk[1:] if b.key not in D.modwrap and b.key not in D.modsw]
        if not cands:
            continue
        b = rnd.choice(cands)
        if wa is None:
            sid = D.struct
            D.struct += 1
            D.nbits += 1
            D.modwrap[a.key] = (sid, 0, D.nbits - 1)
            add_prefix(a, ((("if", sid), 0),))
        sid2 = D.struct
        D.struct += 1
        D.nbits += 2
        val = rnd.randrange(4)
        D.modsw[b.key] = (sid2, (D.nbits - 2, D.nbits - 1), val)
        add_prefix(b, ((("sw", sid2), 0),))
        D.confl.append((a.key, b.key, rnd.choice([Priority.UNDEFINED, Priority.LEFT, Priority.RIGHT])))
        D.count_case_after_if = True
        return True
    return False


def add_cross_module_conflict_pattern(D, rnd):
    """Forced layout class: the first body of one elaboratable is defined under `If`, the first body of another elaboratable under the
    `Else` of *its own* If, and the two are related by add_conflict. Alternatives of structures in different modules are not exclusive:
    the conflict must be kept."""
    chunks = module_chunks(D)
    if len(chunks) < 2:
        return False
    c0, c1 = rnd.sample(range(len(chunks)), 2)
    a, b = chunks[c0][0], chunks[c1][0]
    if a.key in D.modwrap or b.key in D.modwrap:
        return False
    for body, alt in ((a, 0), (b, 1)):
        sid = D.struct
        D.struct += 1
        D.nbits += 1
        D.modwrap[body.key] = (sid, alt, D.nbits - 1)
        add_prefix(body, ((("if", sid), alt),))
    if rnd.random() < 0.5 or getattr(D, "xmod_shared_call", False):
        # variant: instead of (or besides) the declared conflict, both bodies CALL one exclusive method - the two call sites sit at mirrored
        # positions of structures in different modules, they are not mutually exclusive and the callers must conflict
        m_idx = D.nm
        D.nm += 1
        D.meth.append(dict(has_in=False, nonex=False, validate=None, combiner=None, single_caller=False))
        mb = B("m", m_idx)
        mb.pos = ((("body", "m", m_idx), 0),)
        D.nbits += 1
        mb.rdy = D.nbits - 1
        D.bodies[mb.key] = mb
        D.order.append(mb)
        D.deford[mb.key] = len(D.deford)
        for body in (a, b):
            body.stmts.append(("call", new_site(D, body, m_idx)))
        D.count_xmod_shared_call = True
        if rnd.random() < 0.5:
            return True
    D.confl.append((a.key, b.key, Priority.UNDEFINED))
    return True


def add_same_transaction_conflict_pattern(D, rnd):
    """Forced layout class: one transaction uses both ends of an add_conflict; method A is called in both alternatives of an If/Else,
    method B only in the Else. Either the design is rejected, or (only if every pair of call sites were exclusive) both never run."""
    tops = [b for b in D.order if b.kind == "t"]
    if not tops:
        return False
    t = rnd.choice(tops)
    a_idx, b_idx = D.nm, D.nm + 1
    D.nm += 2
    for idx in (a_idx, b_idx):
        D.meth.append(dict(has_in=False, nonex=False, validate=None, combiner=None, single_caller=False))
        b = B("m", idx)
        b.pos = ((("body", "m", idx), 0),)
        D.nbits += 1
        b.rdy = D.nbits - 1
        D.bodies[b.key] = b
        D.order.append(b)
        D.deford[b.key] = len(D.deford)
    sid = D.struct
    D.struct += 1
    D.nbits += 1
    cbit = D.nbits - 1
    mixed = rnd.random() < 0.6
    s1 = new_site(D, t, a_idx, pos=t.pos + ((("if", sid), 0),))
    s3 = new_site(D, t, b_idx, pos=t.pos + ((("if", sid), 1),))
    els = [("call", s3)]
    if mixed:
        s2 = new_site(D, t, a_idx, pos=t.pos + ((("if", sid), 1),))
        els.insert(0, ("call", s2))
    t.stmts.append(("if", sid, [cbit], [[("call", s1)]], els))
    D.confl.append((("m", a_idx), ("m", b_idx), Priority.UNDEFINED))
    return True


def module_chunks(D):
    """The top-level bodies of every elaboratable (TModule). The partition is FIXED when the module-level wrappers are placed: bodies that a forced
    layout class appends afterwards go to the last module, so that two bodies wrapped into the alternatives of one module-level If/Else can never
    drift into different modules (which would make them exclusive for the reference but not for the library)."""
    order = list(D.order)
    fixed = getattr(D, "fixed_chunks", None)
    if fixed is not None:
        present = {b.key: b for b in order}
        chunks = [[present[k] for k in ch if k in present] for ch in fixed]
        seen = {k for ch in fixed for k in ch}
        chunks[-1] += [b for b in order if b.key not in seen]
        return [ch for ch in chunks if ch]
    nmod = max(1, min(getattr(D, "nmod", 1), len(order)))
    size = -(-len(order) // nmod)
    return [order[i:i + size] for i in range(0, len(order), size)]


def add_prefix(b, prefix):
    b.pos = prefix + b.pos
    for st in walk(b.stmts):
        if st[0] == "call":
            st[1].pos = prefix + st[1].pos
        elif st[0] == "wit":
            st[1][3] = prefix + st[1][3]
        elif st[0] == "body":
            add_prefix(st[1], prefix)


def add_module_level_wrappers(D, rnd, p):
    """Some top-level bodies are *defined* under a module-level If / Else of their elaboratable (two neighbours of one module may share one
    If/Else, which makes their definitions mutually exclusive alternatives; bodies in different modules never are)."""
    D.modwrap = {}
    D.fixed_chunks = [[b.key for b in ch] for ch in module_chunks(D)]
    for chunk in module_chunks(D):
        i = 0
        while i < len(chunk):
            if rnd.random() < p:
                sid = D.struct
                D.struct += 1
                D.nbits += 1
                cbit = D.nbits - 1
                if i + 1 < len(chunk) and rnd.random() < 0.5:
                    D.modwrap[chunk[i].key] = (sid, 0, cbit)
                    D.modwrap[chunk[i + 1].key] = (sid, 1, cbit)
                    add_prefix(chunk[i], ((("if", sid), 0),))
                    add_prefix(chunk[i + 1], ((("if", sid), 1),))
                    i += 2
                    continue
                alt = rnd.randrange(2)
                D.modwrap[chunk[i].key] = (sid, alt, cbit)
                add_prefix(chunk[i], ((("if", sid), alt),))
            i += 1


def add_mixed_chain_pattern(D, rnd):
    """Forced layout class: T1 -> N -> M and T2 -> (If: N / Else: M) with N nonexclusive and M exclusive. The pair of chains through the
    shared nonexclusive ancestor N is legitimately not a conflict, the pair (T1 via N, T2 direct) is: T1 and T2 must conflict."""
    tops = [b for b in D.order if b.kind == "t"]
    if len(tops) < 2:
        return False
    t1, t2 = rnd.sample(tops, 2)
    n_idx, m_idx = D.nm, D.nm + 1
    D.nm += 2
    D.meth.append(dict(has_in=False, nonex=True, validate=None, combiner=None, single_caller=False))
    D.meth.append(dict(has_in=rnd.random() < 0.5, nonex=False, validate=None, combiner=None, single_caller=False))
    for idx in (n_idx, m_idx):
        b = B("m", idx)
        b.pos = ((("body", "m", idx), 0),)
        D.nbits += 1
        b.rdy = D.nbits - 1
        D.bodies[b.key] = b
        D.order.append(b)
        D.deford[b.key] = len(D.deford)
    nb = D.bodies[("m", n_idx)]
    s0 = new_site(D, nb, m_idx)
    nb.stmts.append(("call", s0))
    s1 = new_site(D, t1, n_idx)
    t1.stmts.append(("call", s1))
    sid = D.struct
    D.struct += 1
    D.nbits += 1
    cbit = D.nbits - 1
    s2 = new_site(D, t2, n_idx, pos=t2.pos + ((("if", sid), 0),))
    s3 = new_site(D, t2, m_idx, pos=t2.pos + ((("if", sid), 1),))
    t2.stmts.append(("if", sid, [cbit], [[("call", s2)]], [("call", s3)]))
    return True


def add_nonexclusive_depth_pattern(D, rnd):
    """Forced layout class: a nonexclusive method N whose body calls an exclusive method M, called by one transaction directly (T1 -> N -> M) and
    by another through an ordinary exclusive wrapper (T2 -> W -> N -> M): the top-most common ancestor of the two call paths is N, so the two
    transactions do NOT conflict and must be able to run together."""
    tops = [b for b in D.order if b.kind == "t"]
    if len(tops) < 2:
        return False
    t1, t2 = rnd.sample(tops, 2)
    n_idx, m_idx, w_idx = D.nm, D.nm + 1, D.nm + 2
    D.nm += 3
    D.meth.append(dict(has_in=False, nonex=True, validate=None, combiner=None, single_caller=False))
    D.meth.append(dict(has_in=False, nonex=False, validate=None, combiner=None, single_caller=False))
    D.meth.append(dict(has_in=False, nonex=False, validate=None, combiner=None, single_caller=False))
    for idx in (n_idx, m_idx, w_idx):
        b = B("m", idx)
        b.pos = ((("body", "m", idx), 0),)
        D.nbits += 1
        b.rdy = D.nbits - 1
        D.bodies[b.key] = b
        D.order.append(b)
        D.deford[b.key] = len(D.deford)
    nb, wb = D.bodies[("m", n_idx)], D.bodies[("m", w_idx)]
    nb.stmts.append(("call", new_site(D, nb, m_idx)))
    wb.stmts.append(("call", new_site(D, wb, n_idx)))
    t1.stmts.append(("call", new_site(D, t1, n_idx)))
    t2.stmts.append(("call", new_site(D, t2, w_idx)))
    return True


def add_elif_diamond_pattern(D, rnd):
    """Forced layout class: one transaction calls one exclusive method (with distinguishable constant arguments) in the If, the Elif and the Else
    alternative of one chain: whatever the conditions are, exactly one of the call sites is active."""
    tops = [b for b in D.order if b.kind == "t"]
    if not tops:
        return False
    t = rnd.choice(tops)
    m_idx = D.nm
    D.nm += 1
    D.meth.append(dict(has_in=True, nonex=False, validate=None, combiner=None, single_caller=False))
    b = B("m", m_idx)
    b.pos = ((("body", "m", m_idx), 0),)
    D.nbits += 1
    b.rdy = D.nbits - 1
    D.bodies[b.key] = b
    D.order.append(b)
    D.deford[b.key] = len(D.deford)
    sid = D.struct
    D.struct += 1
    D.nbits += 2
    c0, c1 = D.nbits - 2, D.nbits - 1
    sites = []
    for alt, const in ((0, 1), (1, 2), (2, 4)):
        st = new_site(D, t, m_idx, pos=t.pos + ((("if", sid), alt),))
        st.arg = ("const", const)
        sites.append(st)
    t.stmts.append(("if", sid, [c0, c1], [[("call", sites[0])], [("call", sites[1])]], [("call", sites[2])] if rnd.random() < 0.7 else None))
    if t.stmts[-1][4] is None:
        D.sites.remove(sites[2])
    return True


def add_validated_diamond_pattern(D, rnd):
    """Forced layout class: one transaction calls method A from two mutually exclusive sites (If / Else); A calls a method V with
    validate_arguments. Whichever site is active, V's predicate must hold for the transaction to run."""
    tops = [b for b in D.order if b.kind == "t"]
    if not tops:
        return False
    t = rnd.choice(tops)
    a_idx, v_idx = D.nm, D.nm + 1
    D.nm += 2
    D.meth.append(dict(has_in=False, nonex=False, validate=None, combiner=None, single_caller=False))
    D.nins += 2
    D.meth.append(dict(has_in=True, nonex=False, validate=(D.nins - 1, rnd.choice(["eq", "ne", "bit0"])), combiner=None, single_caller=False))
    for idx in (a_idx, v_idx):
        b = B("m", idx)
        b.pos = ((("body", "m", idx), 0),)
        D.nbits += 1
        b.rdy = D.nbits - 1
        D.bodies[b.key] = b
        D.order.append(b)
        D.deford[b.key] = len(D.deford)
    ab = D.bodies[("m", a_idx)]
    sv = new_site(D, ab, v_idx)
    sv.arg = ("in", D.nins - 2)
    ab.stmts.append(("call", sv))
    sid = D.struct
    D.struct += 1
    D.nbits += 1
    cbit = D.nbits - 1
    s1 = new_site(D, t, a_idx, pos=t.pos + ((("if", sid), 0),))
    s2 = new_site(D, t, a_idx, pos=t.pos + ((("if", sid), 1),))
    t.stmts.append(("if", sid, [cbit], [[("call", s1)]], [("call", s2)]))
    return True


def add_priority_triangle_pattern(D, rnd):
    """Forced layout class: a prioritised conflict hi/lo where the high side has an additional conflict neighbour x (which is often idle):
    the arbitration order must follow the declared priority, not the number of conflicts."""
    first = D.nt + D.tnext
    D.tnext += 3
    keys = []
    for k in range(3):
        b = B("t", first + k)
        b.pos = ((("body", "t", first + k), 0),)
        D.nbits += 1
        b.rdy = D.nbits - 1
        D.bodies[b.key] = b
        keys.append(b.key)
        D.order.insert(rnd.randrange(len(D.order) + 1), b)
    D.deford = {}
    def pre(b):
        D.deford[b.key] = len(D.deford)
        for st in walk(b.stmts):
            if st[0] == "body":
                pre(st[1])
    for b in D.order:
        pre(b)
    hi, lo, x = keys
    if rnd.random() < 0.5:
        D.confl.append((hi, lo, Priority.LEFT))
    else:
        D.confl.append((lo, hi, Priority.RIGHT))
    D.confl.append((hi, x, Priority.UNDEFINED))
    if rnd.random() < 0.5:
        extra = [k for k in D.bodies if k[0] == "t" and k not in keys]
        if extra:
            D.confl.append((hi, rnd.choice(extra), Priority.UNDEFINED))
    return True


def add_double_conflict_pattern(D, rnd):
    """Forced layout class: two transactions that conflict TWICE - implicitly (both call one exclusive method) and by a prioritised add_conflict
    (between the transactions, or between two further methods they call) whose declared priority disagrees with the definition order: the priority
    of the second relation must survive although the pair already conflicts. A third transaction hangs on the component through a
    schedule_before without any conflict (a component that is not a clique): it must never be blocked by the pair."""
    first = D.nt + D.tnext
    D.tnext += 3
    keys = []
    for k in range(3):
        b = B("t", first + k)
        b.pos = ((("body", "t", first + k), 0),)
        D.nbits += 1
        b.rdy = D.nbits - 1
        D.bodies[b.key] = b
        keys.append(b.key)
        D.order.append(b)
    m0 = D.nm
    via_methods = rnd.random() < 0.5
    D.nm += 3 if via_methods else 1
    for idx in range(m0, D.nm):
        D.meth.append(dict(has_in=False, nonex=False, validate=None, combiner=None, single_caller=False))
        b = B("m", idx)
        b.pos = ((("body", "m", idx), 0),)
        D.nbits += 1
        b.rdy = D.nbits - 1
        D.bodies[b.key] = b
        D.order.insert(rnd.randrange(len(D.order) + 1), b)
    D.deford = {}

    def pre(b):
        D.deford[b.key] = len(D.deford)
        for st in walk(b.stmts):
            if st[0] == "body":
                pre(st[1])
    for b in D.order:
        pre(b)
    early, late, third = (D.bodies[k] for k in keys)  # `early` is defined before `late`
    for t in (early, late):
        t.stmts.append(("call", new_site(D, t, m0)))  # the shared exclusive method: implicit, unprioritised conflict
    if via_methods:
        early.stmts.append(("call", new_site(D, early, m0 + 1)))
        late.stmts.append(("call", new_site(D, late, m0 + 2)))
        hi, lo = ("m", m0 + 2), ("m", m0 + 1)
    else:
        hi, lo = late.key, early.key
    # the later-defined side has the higher priority
    D.confl.append((hi, lo, Priority.LEFT) if rnd.random() < 0.5 else (lo, hi, Priority.RIGHT))
    # the third transaction is only ordered after the pair, it conflicts with nobody
    D.sb.append((early.key, third.key, False))
    return True


def add_lifted_priority_pattern(D, rnd):
    """Forced layout class: a (prioritised) conflict declared between two METHODS that each have two calling transactions: the relation must be
    lifted to all four pairs of callers, not only to callers with equal index."""
    first = D.nt + D.tnext
    D.tnext += 4
    tkeys = []
    for k in range(4):
        b = B("t", first + k)
        b.pos = ((("body", "t", first + k), 0),)
        D.nbits += 1
        b.rdy = D.nbits - 1
        D.bodies[b.key] = b
        tkeys.append(b.key)
        D.order.insert(rnd.randrange(len(D.order) + 1), b)
    m0 = D.nm
    D.nm += 2
    for idx in (m0, m0 + 1):
        D.meth.append(dict(has_in=False, nonex=True, validate=None, combiner=None, single_caller=False))  # nonexclusive: the callers of one side do not conflict
        b = B("m", idx)
        b.pos = ((("body", "m", idx), 0),)
        D.nbits += 1
        b.rdy = D.nbits - 1
        D.bodies[b.key] = b
        D.order.insert(rnd.randrange(len(D.order) + 1), b)
    D.deford = {}

    def pre(b):
        D.deford[b.key] = len(D.deford)
        for st in walk(b.stmts):
            if st[0] == "body":
                pre(st[1])
    for b in D.order:
        pre(b)
    for k, tk in enumerate(tkeys):
        t = D.bodies[tk]
        t.stmts.append(("call", new_site(D, t, m0 + (k % 2))))  # t0, t2 call the first method, t1, t3 the second
    D.confl.append((("m", m0), ("m", m0 + 1), rnd.choice([Priority.LEFT, Priority.RIGHT, Priority.UNDEFINED])))
    return True


def add_deep_chain_pattern(D, rnd):
    """Forced layout class: T -(conditional call)-> m1 -> m2 -> m3 (plain calls): when the condition at the top of the chain is false,
    none of the methods below may run although T runs (the call enable must be propagated down the whole chain)."""
    tops = [b for b in D.order if b.kind == "t"]
    if not tops:
        return False
    t = rnd.choice(tops)
    depth = rnd.randint(3, 4)
    first = D.nm
    D.nm += depth
    for k in range(depth):
        D.meth.append(dict(has_in=rnd.random() < 0.5, nonex=rnd.random() < 0.2, validate=None, combiner=None, single_caller=False))
        b = B("m", first + k)
        b.pos = ((("body", "m", first + k), 0),)
        D.nbits += 1
        b.rdy = D.nbits - 1
        D.bodies[b.key] = b
        D.order.append(b)
        D.deford[b.key] = len(D.deford)
    for k in range(depth - 1):
        cb = D.bodies[("m", first + k)]
        cb.stmts.append(("call", new_site(D, cb, first + k + 1)))
    D.nbits += 1
    cbit = D.nbits - 1
    if rnd.random() < 0.5:
        sid = D.struct
        D.struct += 1
        s0 = new_site(D, t, first, pos=t.pos + ((("if", sid), 0),))
        t.stmts.append(("if", sid, [cbit], [[("call", s0)]], None))
    else:
        s0 = new_site(D, t, first)
        s0.en = cbit
        s0.pos = t.pos + ((("en", s0.sid), 0),)
        t.stmts.append(("call", s0))
    return True


def walk(stmts):
    for st in stmts:
        yield st
        if st[0] == "if":
            for a in st[3]:
                yield from walk(a)
            if st[4] is not None:
                yield from walk(st[4])
        elif st[0] == "switch":
            for _, a in st[3]:
                yield from walk(a)
            if st[4] is not None:
                yield from walk(st[4])
        elif st[0] == "fsm":
            for a in st[2]:
                yield from walk(a)


def remove_site(D, site):
    def rec(stmts):
        for st in list(stmts):
            if st[0] == "call" and st[1] is site:
                stmts.remove(st)
            elif st[0] == "if":
                for a in st[3]:
                    rec(a)
                if st[4] is not None:
                    rec(st[4])
            elif st[0] == "switch":
                for _, a in st[3]:
                    rec(a)
                if st[4] is not None:
                    rec(st[4])
            elif st[0] == "fsm":
                for a in st[2]:
                    rec(a)
            elif st[0] == "body":
                rec(st[1].stmts)
    for b in D.order:
        rec(b.stmts)
    D.sites.remove(site)


# ------------------------------------------------------------------------------------------------------------------
# reference semantics (static part)
def edges_excl(p1, p2):
    """Positions diverge in different alternatives of one control structure."""
    for a, b in zip(p1, p2):
        if a == b:
            continue
        return a[0] == b[0] and a[1] != b[1] and a[0][0] in EXCL_KINDS
    return False


def chains(D, root):
    out = []

    def rec(b, pre, seen):
        for s in D.sites:
            if s.caller is b:
                c = pre + [s]
                out.append(c)
                if s.callee not in seen:
                    rec(D.bodies[("m", s.callee)], c, seen | {s.callee})
    rec(D.bodies[root], [], set())
    return out


def chain_excl(c1, c2):
    for s1, s2 in zip(c1, c2):
        if s1 is s2:
            continue
        return edges_excl(s1.pos, s2.pos)
    return False


def analyse(D):
    A = type("A", (), {})()
    T = [k for k in D.bodies if k[0] == "t"]
    A.T = T
    A.ch = {k: chains(D, k) for k in D.bodies}
    A.double = A.selfcall = False
    A.double_witness = None
    for k in D.bodies:
        for c in A.ch[k]:
            if k[0] == "m" and c[-1].callee == k[1]:
                A.selfcall = True
            if len({s.callee for s in c}) != len(c):
                A.selfcall = True
    for k in D.bodies:  # every body is validated as the root of a call tree, uncalled methods too
        for c1, c2 in itertools.combinations(A.ch[k], 2):
            if c1[-1].callee == c2[-1].callee and not D.meth[c1[-1].callee]["nonex"] and not chain_excl(c1, c2):
                A.double = True
                A.double_witness = (k, c1[-1], c2[-1])
    A.reach = {t: {("m", c[-1].callee) for c in A.ch[t]} | {t} for t in T}
    A.tfor = lambda k: [k] if k[0] == "t" else [t for t in T if k in A.reach[t]]
    A.called = {("m", c[-1].callee) for t in T for c in A.ch[t]}
    conf = collections.defaultdict(set)
    A.conf_reason = collections.defaultdict(set)

    def defs_excl(t1, t2):
        return any(edges_excl(D.bodies[a].pos, D.bodies[b].pos) for a in A.reach[t1] for b in A.reach[t2])

    A.same_trans_conflict = []  # (transaction, a, b, priority, unsatisfiable): unsatisfiable = some pair of call sites not exclusive
    for a, b, pr in D.confl:
        for t in T:
            if a in A.reach[t] and b in A.reach[t]:
                if a == t or b == t:
                    unsat = True
                else:
                    ca = [c for c in A.ch[t] if ("m", c[-1].callee) == a]
                    cb = [c for c in A.ch[t] if ("m", c[-1].callee) == b]
                    unsat = not all(chain_excl(x, y) for x in ca for y in cb)
                    if edges_excl(D.bodies[a].pos, D.bodies[b].pos):
                        unsat = False  # definitions in exclusive alternatives: the relation is dropped as documented
                A.same_trans_conflict.append((t, a, b, pr, unsat))
    for t1, t2 in itertools.combinations(T, 2):
        c = False
        for c1 in A.ch[t1]:
            for c2 in A.ch[t2]:
                if c1[-1].callee != c2[-1].callee:
                    continue
                a1 = [s.callee for s in reversed(c1)]
                a2 = [s.callee for s in reversed(c2)]
                top = None
                for x, y in zip(a1, a2):
                    if x != y:
                        break
                    top = x
                if not D.meth[top]["nonex"] and not chain_excl(c1, c2):
                    c = True
                    A.conf_reason[frozenset((t1, t2))].add("shared_exclusive_method")
        for a, b, _ in D.confl:
            if ((a in A.reach[t1] and b in A.reach[t2]) or (a in A.reach[t2] and b in A.reach[t1])) and not defs_excl(t1, t2):
                c = True
                A.conf_reason[frozenset((t1, t2))].add("add_conflict")
        if c:
            conf[t1].add(t2)
            conf[t2].add(t1)
    A.conf = conf
    A.deps = collections.defaultdict(set)
    rel = []
    for k, b in D.bodies.items():
        if b.parent is not None:
            A.deps[k].add(b.parent.key)
            rel.append((b.parent.key, k))
    for a, b, rd in D.sb:
        rel.append((a, b))
        if rd:
            A.deps[b].add(a)
    for a, b, pr in D.confl:
        if pr == Priority.LEFT:
            rel.append((a, b))
        if pr == Priority.RIGHT:
            rel.append((b, a))
    g = networkx.DiGraph()
    g.add_nodes_from(T)
    live = set(T) | A.called
    for a, b in rel:
        if a in live and b in live:
            for ta in A.tfor(a):
                for tb in A.tfor(b):
                    g.add_edge(ta, tb)
    A.prio_cycle = not networkx.is_directed_acyclic_graph(g)
    A.deadlock = any(d in A.conf[t] for t in T for d in A.deps[t] if d[0] == "t")
    A.single_caller_violation = any(md["single_caller"] and len(A.tfor(("m", j))) > 1 for j, md in enumerate(D.meth))
    return A


def invalid_reasons(A):
    out = []
    if A.selfcall:
        out.append("selfcall")
    if A.double:
        out.append("double")
    if A.prio_cycle:
        out.append("prio")
    if A.deadlock:
        out.append("deadlock")
    if A.single_caller_violation:
        out.append("single_caller")
    return out


def repair(D, rnd, keep_same_trans=False, keep_unsat_same_trans=False):
    """Turn a generated design into a well-formed one by deleting the offending elements (keeps most of the structure).

    keep_same_trans: conflicts whose two ends are used by one transaction on mutually exclusive call paths are kept (they are satisfiable).
    keep_unsat_same_trans: even unsatisfiable ones are kept - elaboration must then reject the design (C02 profile)."""
    for _ in range(300):
        A = analyse(D)
        if A.double:
            remove_site(D, A.double_witness[2])
            continue
        bad_stc = [x for x in A.same_trans_conflict if x[4] or not keep_same_trans]
        if bad_stc and not keep_unsat_same_trans:
            t, a, b, pr, unsat = bad_stc[0]
            D.confl = [c for c in D.confl if not (c[0] == a and c[1] == b)]
            continue
        if A.prio_cycle:
            prio = [i for i, c in enumerate(D.confl) if c[2] != Priority.UNDEFINED]
            if prio:
                i = rnd.choice(prio)
                D.confl[i] = (D.confl[i][0], D.confl[i][1], Priority.UNDEFINED)
            elif D.sb:
                D.sb.pop(rnd.randrange(len(D.sb)))
                for b in D.bodies.values():
                    if b.rdy_or is not None and not any(x[0] == b.rdy_or and x[1] == b.key for x in D.sb):
                        b.rdy_or = None
            else:
                nested_callee_sites = [s for s in D.sites if D.bodies[("m", s.callee)].parent is not None or s.caller.parent is not None]
                if not nested_callee_sites:
                    return None
                remove_site(D, rnd.choice(nested_callee_sites))
            continue
        if A.deadlock:
            rds = [i for i, x in enumerate(D.sb) if x[2]]
            if rds:
                i = rnd.choice(rds)
                D.sb[i] = (D.sb[i][0], D.sb[i][1], False)
                continue
            if D.confl:
                D.confl.pop()
                continue
            bad = [(t, d) for t in A.T for d in A.deps[t] if d[0] == "t" and d in A.conf[t]]
            t, d = bad[0]
            cand = [c[0] for c in A.ch[t]] or [c[0] for c in A.ch[d]]
            if not cand:
                return None
            remove_site(D, rnd.choice(cand))
            continue
        return A
    return None


# ------------------------------------------------------------------------------------------------------------------
# emission of real Transactron objects
class Emit(Elaboratable):
    def __init__(self, D):
        self.D = D
        self.bits = [Signal(name=f"b{i}") for i in range(D.nbits)]
        self.ins = [Signal(4, name=f"in{i}") for i in range(D.nins)]
        self.objs, self.sw, self.rw, self.ww, self.fsm_on, self.alias = {}, {}, {}, {}, {}, {}
        self.rel_proxies = []
        self.meths = [Method(name=f"M{i}", i=[("x", 4)] if D.meth[i]["has_in"] else [], o=[("y", 4)]) for i in range(D.nm)]

    def callee_obj(self, s):
        """The method object called at site s: the method itself or an alias reached through `via` provide() hops."""
        target = self.meths[s.callee]
        for hop in range(s.via):
            key = (s.callee, hop)
            if key not in self.alias:
                if (s.callee + hop) % 2:
                    from transactron import Methods
                    col = Methods(1, name=f"M{s.callee}_aliases{hop}", i=target.layout_in, o=target.layout_out)
                    col.provide([target])
                    al = col[0]
                else:
                    al = Method.like(target, name=f"M{s.callee}_alias{hop}")
                    al.provide(target)
                self.alias[key] = al
            target = self.alias[key]
        return target

    def elaborate(self, platform):
        D = self.D
        top = TModule()
        chunks = module_chunks(D)
        for k, chunk in enumerate(chunks):
            top.submodules[f"part{k}"] = _Part(self, chunk, last=(k == len(chunks) - 1))
        return top

    def emit_bodies(self, m, bodies, last):
        D = self.D

        def ready_of(b):
            r = self.bits[b.rdy]
            if b.rdy_or is not None:
                r = r | self.objs[b.rdy_or].run
            return r

        def stmts(b, sts, arg):
            for st in sts:
                if st[0] == "call":
                    s = st[1]
                    w = self.sw[s.sid] = Signal(name=f"w{s.sid}")
                    rw = self.rw[s.sid] = Signal(4, name=f"rw{s.sid}")
                    kw = {}
                    if s.arg is not None:
                        kw["x"] = self.ins[s.arg[1]] if s.arg[0] == "in" else (C(s.arg[1], 4) if s.arg[0] == "const" else arg.x)
                    callee = self.callee_obj(s)
                    if s.en is not None:
                        ret = callee(m, enable_call=self.bits[s.en], **kw)
                        with m.If(self.bits[s.en]):
                            m.d.comb += w.eq(1)
                            m.d.comb += rw.eq(ret.y)
                    else:
                        ret = callee(m, **kw)
                        m.d.comb += w.eq(1)
                        m.d.comb += rw.eq(ret.y)
                elif st[0] == "if":
                    _, sid, conds, alts, els = st
                    for k, (c, a) in enumerate(zip(conds, alts)):
                        with (m.If(self.bits[c]) if k == 0 else m.Elif(self.bits[c])):
                            stmts(b, a, arg)
                    if els is not None:
                        with m.Else():
                            stmts(b, els, arg)
                elif st[0] == "switch":
                    _, sid, sel, cases, dflt = st
                    with m.Switch(Cat(self.bits[sel[0]], self.bits[sel[1]])):
                        for v, a in cases:
                            with m.Case(v):
                                stmts(b, a, arg)
                        if dflt is not None:
                            with m.Default():
                                stmts(b, dflt, arg)
                elif st[0] == "fsm":
                    _, sid, states, trans = st
                    with m.FSM(name=f"fsm{sid}") as fsm:
                        for k, a in enumerate(states):
                            with m.State(f"S{k}"):
                                self.fsm_on[(sid, k)] = fsm.ongoing(f"S{k}")
                                stmts(b, a, arg)
                                with m.If(self.bits[trans[k]]):
                                    m.next = f"S{(k + 1) % len(states)}"
                elif st[0] == "body":
                    body(st[1])
                elif st[0] == "wit":
                    wid, dom, _, _ = st[1]
                    sig = self.ww[wid] = Signal(name=f"wit{wid}")
                    if dom == "comb":
                        m.d.comb += sig.eq(1)
                    elif dom == "av":
                        m.d.av_comb += sig.eq(1)
                    elif dom == "top":
                        m.d.top_comb += sig.eq(1)
                    else:
                        m.d.sync += sig.eq(~sig)

        def combiner_of(md):
            if md["combiner"] == "or":
                def comb(mm, args, runs):
                    acc = C(0, 4)
                    for i, a in enumerate(args):
                        acc = acc | Mux(runs[i], a.x, 0)
                    return {"x": acc}
                return comb
            if md["combiner"] == "sum":
                def comb(mm, args, runs):
                    acc = C(0, 4)
                    for i, a in enumerate(args):
                        acc = (acc + Mux(runs[i], a.x, 0))[:4]
                    return {"x": acc}
                return comb
            if md["combiner"] == "sum_plus_count":
                # not the identity on a single argument: the combiner must be applied even when the method has one call site
                def comb(mm, args, runs):
                    acc = C(0, 4)
                    for i, a in enumerate(args):
                        acc = (acc + Mux(runs[i], a.x + 1, 0))[:4]
                    return {"x": acc}
                return comb
            return None

        def body(b):
            if b.kind == "t":
                t = Transaction(name=f"T{b.idx}")
                self.objs[b.key] = t
                with t.body(m, ready=ready_of(b)):
                    stmts(b, b.stmts, None)
            else:
                me = self.meths[b.idx]
                self.objs[b.key] = me
                md = D.meth[b.idx]
                kw = {}
                if md["nonex"]:
                    kw["nonexclusive"] = True
                    cb = combiner_of(md)
                    if cb is not None:
                        kw["combiner"] = cb
                    elif md["has_in"]:
                        from transactron.core.body import Body
                        kw["combiner"] = Body._default_combiner(me.layout_in)
                if md["single_caller"]:
                    kw["single_caller"] = True
                if md["validate"] is not None:
                    vi, op = md["validate"]
                    ref = self.ins[vi]
                    kw["validate_arguments"] = {"eq": (lambda x: x == ref), "ne": (lambda x: x != ref), "bit0": (lambda x: x[0] == ref[0])}[op]
                style = (b.idx + D.nm) % 3  # 0: Method.body() context manager, 1: def_method(arg), 2: def_method(field keyword parameters)
                if style == 0:
                    out = Signal(4)
                    with me.body(m, ready=ready_of(b), out=out, **kw) as arg:
                        m.d.top_comb += out.eq((arg.x + b.idx + 1) if md["has_in"] else (b.idx + 1))
                        stmts(b, b.stmts, arg)
                elif style == 1 or not md["has_in"]:
                    from transactron import def_method

                    @def_method(m, me, ready=ready_of(b), **kw)
                    def _(arg):
                        stmts(b, b.stmts, arg)
                        return {"y": (arg.x + b.idx + 1) if md["has_in"] else (b.idx + 1)}
                else:
                    from transactron import def_method

                    class _A:  # the body statements take the argument as an object with attribute x
                        pass

                    @def_method(m, me, ready=ready_of(b), **kw)
                    def _(x):
                        a = _A()
                        a.x = x
                        stmts(b, b.stmts, a)
                        return {"y": x + b.idx + 1}

        wrap = getattr(D, "modwrap", {})
        filler = Signal(name="modwrap_filler")
        i = 0
        while i < len(bodies):
            b = bodies[i]
            w = wrap.get(b.key)
            msw = getattr(D, "modsw", {}).get(b.key)
            if msw is not None:
                with m.Switch(Cat(self.bits[msw[1][0]], self.bits[msw[1][1]])):
                    with m.Case(msw[2]):
                        body(b)
            elif w is None:
                body(b)
            else:
                sid, alt, cbit = w
                nxt = bodies[i + 1] if i + 1 < len(bodies) else None
                if alt == 0 and nxt is not None and wrap.get(nxt.key, (None,))[0] == sid:
                    with m.If(self.bits[cbit]):
                        body(b)
                    with m.Else():
                        body(nxt)
                    i += 1
                elif alt == 0:
                    with m.If(self.bits[cbit]):
                        body(b)
                else:
                    with m.If(self.bits[cbit]):
                        m.d.comb += filler.eq(1)
                    with m.Else():
                        body(b)
            i += 1
        if last:
            # relations are declared on the defined objects or, for methods, on a proxy obtained with provide() (every third relation
            # uses a proxy for its start, every third for its end): a relation declared on a proxy applies to the providing body
            def obj(key, use_proxy, tag):
                o = self.objs[key]
                if use_proxy and key[0] == "m":
                    px = Method.like(o, name=f"{o.name}_relproxy_{tag}")
                    px.provide(o)
                    self.rel_proxies.append(px)
                    return px
                return o

            for n, (a, b, pr) in enumerate(D.confl):
                obj(a, n % 3 == 0, f"c{n}s").add_conflict(obj(b, n % 3 == 1, f"c{n}e"), pr)
                if (n % 3 == 0 and a[0] == "m") or (n % 3 == 1 and b[0] == "m"):
                    D.relations_via_proxy = getattr(D, "relations_via_proxy", 0) + 1
            for n, (a, b, rd) in enumerate(D.sb):
                obj(a, n % 3 == 0, f"s{n}s").schedule_before(obj(b, n % 3 == 1, f"s{n}e"), ready_dependent=rd)


class _Part(Elaboratable):
    """One of the elaboratables a generated design is spread over; each has its own TModule (own control-path module id)."""

    def __init__(self, emit, bodies, last):
        self.emit, self.bodies, self.last = emit, bodies, last

    def elaborate(self, platform):
        m = TModule()
        self.emit.emit_bodies(m, self.bodies, self.last)
        return m


class RecordingScheduler:
    """Wraps a cc scheduler; records the components and graph the manager hands to it."""

    def __init__(self, inner):
        self.inner = inner
        self.calls = []

    def __call__(self, method_map, gr, cc, porder):
        self.calls.append((method_map, gr, list(cc), dict(porder)))
        return self.inner(method_map, gr, cc, porder)


SCHEDULERS = {"eager": eager_deterministic_cc_scheduler, "rr": trivial_roundrobin_cc_scheduler}


def classify_exception(ex):
    msg = str(ex)
    if "called twice" in msg:
        return "double"
    if isinstance(ex, networkx.NetworkXUnfeasible) or "cycle" in msg.lower() and "priorit" in msg.lower():
        return "prio"
    if "deadlock" in msg:
        return "deadlock"
    if "calls itself" in msg:
        return "selfcall"
    if "Single-caller" in msg:
        return "single_caller"
    if "in conflict" in msg or "conflict" in msg and "uses both" in msg:
        return "conflict_within_transaction"
    if "defined afterwards" in msg:
        return "schedule_before_order"
    return "other:" + type(ex).__name__ + ":" + msg[:100]


def build(D, sched="eager"):
    """Elaborate the design. Returns (emit, sim, recorder) or raises."""
    dm = DependencyManager()
    with DependencyContext(dm):
        e = Emit(D)
        recorder = RecordingScheduler(SCHEDULERS[sched])
        top = TransactronContextElaboratable(e, dependency_manager=dm, transaction_manager=TransactionManager(recorder))
        wrap = Module()
        dummy = Signal()
        wrap.d.sync += dummy.eq(1)
        wrap.submodules.top = top
        sim = Simulator(wrap)
    return e, sim, recorder, top


# ------------------------------------------------------------------------------------------------------------------
# dynamic part: per-cycle oracles
def describe(D):
    """Compact printable form of the IR (for evidence samples and witnesses)."""
    def st_repr(st):
        if st[0] == "call":
            s = st[1]
            return f"call M{s.callee}#{s.sid}" + (f" en=b{s.en}" if s.en is not None else "") + (f" arg={s.arg}" if s.arg else "") + (f" via{s.via}" if s.via else "")
        if st[0] == "if":
            return {"if": [[f"b{c}", [st_repr(x) for x in a]] for c, a in zip(st[2], st[3])], "else": None if st[4] is None else [st_repr(x) for x in st[4]]}
        if st[0] == "switch":
            return {"switch": f"b{st[2][0]},b{st[2][1]}", "cases": [[v, [st_repr(x) for x in a]] for v, a in st[3]], "default": None if st[4] is None else [st_repr(x) for x in st[4]]}
        if st[0] == "fsm":
            return {"fsm": st[1], "states": [[st_repr(x) for x in a] for a in st[2]], "next_on": [f"b{t}" for t in st[3]]}
        if st[0] == "body":
            return body_repr(st[1])
        return f"wit{st[1][0]}:{st[1][1]}"

    def body_repr(b):
        name = f"{'T' if b.kind == 't' else 'M'}{b.idx}"
        d = {"body": name, "ready": f"b{b.rdy}" + (f"|{b.rdy_or}.run" if b.rdy_or else ""), "stmts": [st_repr(s) for s in b.stmts]}
        if b.kind == "m":
            d["method"] = {k: v for k, v in D.meth[b.idx].items() if v}
        return d

    return {"bodies": [body_repr(b) for b in D.order], "conflicts": [[str(a), str(b), p.name] for a, b, p in D.confl],
            "schedule_before": [[str(a), str(b), rd] for a, b, rd in D.sb],
            **({"module_level_switch_case": {str(k): list(v) for k, v in D.modsw.items()}} if getattr(D, "modsw", None) else {})}


def run_design(rec: Rec, D, A, rnd: random.Random, case: dict, sched: str = "eager", cycles: int = 200, exhaustive_limit: int = 10):
    """Elaborate + simulate a well-formed design and evaluate every oracle. Returns False if elaboration failed."""
    unsat = [x for x in A.same_trans_conflict if x[4]]
    try:
        e, sim, recorder, top = build(D, sched)
    except Exception as ex:
        if unsat and classify_exception(ex) in ("conflict_within_transaction", "prio"):
            rec.count("designs_rejected_because_one_transaction_uses_both_ends_of_a_conflict")
            return False
        rec.check("C11:well_formed_design_elaborates", False, case=case, detail={"exception": classify_exception(ex), "trace": traceback.format_exc()[-800:]})
        return False
    if unsat:
        # elaborated although one transaction uses both ends of a conflict on non-exclusive paths: the per-cycle C02 oracle decides
        rec.count("designs_accepted_with_unsatisfiable_conflict_inside_one_transaction")
    else:
        rec.check("C11:well_formed_design_elaborates", True)
    try:
        build_netlist(sim._design)
        rec.check("C10:no_combinational_cycle", True)
    except Exception as ex:
        rec.check("C10:no_combinational_cycle", False, case=case, detail=str(ex)[:600])
        return True
    if any(b.rdy_or is not None for b in D.bodies.values()):
        rec.count("designs_with_run_dependent_ready")
    sim.add_clock(1e-6)
    T = A.T
    D.ifconds, D.swinfo = {}, {}
    D.sites_by_id = {s.sid: s for s in D.sites}
    for b in D.bodies.values():
        for st in walk(b.stmts):
            if st[0] == "if":
                D.ifconds[st[1]] = st[2]
            if st[0] == "switch":
                D.swinfo[st[1]] = (st[2], [v for v, _ in st[3]])
    for key, (sid, alt, cbit) in getattr(D, "modwrap", {}).items():
        D.ifconds[sid] = [cbit]
    for key, (sid, sel, val) in getattr(D, "modsw", {}).items():
        D.swinfo[sid] = (sel, [val])
    nb = len(e.bits)
    exhaustive = nb <= exhaustive_limit and not D.fsms and not any(w[1] == "sync" for w in D.wits)
    aliases_of = collections.defaultdict(list)
    for (j, hop), al in e.alias.items():
        aliases_of[j].append(al)
    prev = {"sync": {}}
    log = collections.deque(maxlen=4)
    comps = []  # scheduler components as lists of transaction keys (from the recording scheduler wrapper)
    if sched == "rr":
        key_of = {id(e.objs[k]._body): k for k in T}
        for method_map, gr, cc, porder in recorder.calls:
            comp = [key_of[id(t)] for t in cc if id(t) in key_of]
            # the property quantifies over components without internal ready dependencies
            internal = any(d in comp for t in comp for d in A.deps[t]) or any(D.bodies[t].rdy_or in comp for t in comp if D.bodies[t].rdy_or) \
                or any(d in comp for t in comp for c in A.ch[t] for d in A.deps[("m", c[-1].callee)]) \
                or any(D.bodies[("m", c[-1].callee)].rdy_or in comp for t in comp for c in A.ch[t])
            comps.append((comp, internal))
        ref_cc = set()
        seen = set()
        for t in T:
            if t in seen:
                continue
            comp, q = set(), [t]
            while q:
                x = q.pop()
                if x not in comp:
                    comp.add(x)
                    q.extend(A.conf[x])
            seen |= comp
            ref_cc.add(frozenset(comp))
        if ref_cc != {frozenset(c) for c, _ in comps}:
            rec.count("designs_where_scheduler_components_differ_from_reference_components")
        rr_wait = collections.Counter()

    def evalpos(pos, bits, fsm_on, upto=0):
        ok = True
        for (sk, alt) in pos[upto:]:
            if sk[0] == "if":
                conds = D.ifconds[sk[1]]
                ok = ok and all(not bits[c] for c in conds[:alt]) and (alt == len(conds) or bool(bits[conds[alt]]))
            elif sk[0] == "sw":
                sel, vals = D.swinfo[sk[1]]
                v = bits[sel[0]] | (bits[sel[1]] << 1)
                ok = ok and (v == vals[alt] if alt < len(vals) else v not in vals)
            elif sk[0] == "fsm":
                ok = ok and bool(fsm_on[(sk[1], alt)])
            elif sk[0] == "en":
                ok = ok and bool(bits[D.sites_by_id[sk[1]].en])
        return ok

    from .. import txsan as _txsan
    san = None
    try:
        san = _txsan.TxSan(top.transaction_manager, rec, case, "gen")
        san_sigs = san.signals()
    except Exception:
        san = None
        rec.count("txsan_not_attached_to_generated_design")

    async def tb(ctx):
        if exhaustive:
            vals = list(range(1 << nb))
            rnd.shuffle(vals)
            plan = vals[:cycles * 2]
        else:
            plan = [None] * cycles
        pr = rnd.choice([0.2, 0.5, 0.9])
        # bits that steer control structures (If/Elif conditions, Switch selectors, module-level wrappers): in every second epoch they are drawn
        # uniformly whatever the readiness regime is, so that "everything ready" phases still visit all alternatives
        ctrl = set(c for conds in D.ifconds.values() for c in conds) | set(b_ for sel, _ in D.swinfo.values() for b_ in sel) | \
            set(w[2] for w in getattr(D, "modwrap", {}).values())
        uniform_ctrl = False
        for cyc, pv in enumerate(plan):
            if cyc % 25 == 0:
                pr = rnd.choice([0.1, 0.5, 0.9, 0.97] + ([1.0, 1.0] if sched == "rr" else []))
                uniform_ctrl = (cyc // 25) % 2 == 1
            for i, s in enumerate(e.bits):
                p_i = 0.5 if (uniform_ctrl and i in ctrl) else pr
                ctx.set(s, (pv >> i) & 1 if pv is not None else int(rnd.random() < p_i))
            for s in e.ins:
                ctx.set(s, rnd.randrange(16) if rnd.random() < 0.7 else 3)
            bits = [ctx.get(s) for s in e.bits]
            ins = [ctx.get(s) for s in e.ins]
            fsm_on = {k: ctx.get(v) for k, v in e.fsm_on.items()}
            run = {k: ctx.get(e.objs[k].run) for k in D.bodies}
            din = {k: (ctx.get(e.objs[k].data_in.x) if k[0] == "m" and D.meth[k[1]]["has_in"] else None) for k in D.bodies}
            dout = {k: ctx.get(e.objs[k].data_out.y) for k in D.bodies if k[0] == "m"}
            rec.count("cycles")
            if san is not None:
                # the design-independent sanitizer reads the REAL per-call-site enable signals (the reference activity above is computed from inputs)
                san.check([int(ctx.get(x)) for x in san_sigs])
            entry = {"cycle": cyc, "bits": "".join(str(x) for x in bits), "ins": ins, "run": sorted(str(k) for k in run if run[k])}
            log.append(entry)
            det = {"last_cycles": list(log)}
            rdy_eff = {}
            for k, b in D.bodies.items():
                r = bits[b.rdy] or (b.rdy_or is not None and run[b.rdy_or])
                rdy_eff[k] = bool(r) and evalpos(b.pos, bits, fsm_on)

            def argval(s):
                if s.arg is None:
                    return None
                return ins[s.arg[1]] if s.arg[0] == "in" else s.arg[1] if s.arg[0] == "const" else din[s.caller.key]

            act = collections.defaultdict(list)
            for s in D.sites:
                cond = evalpos(s.pos, bits, fsm_on, len(s.caller.pos))
                a = bool(run[s.caller.key]) and cond
                if bool(ctx.get(e.sw[s.sid])) != a:
                    rec.harness_error(f"site witness disagrees with the reference activity at site {s.sid} (design {case.get('design')})")
                if a:
                    act[s.callee].append(s)
                    rec.check("C05:caller_observes_method_output", ctx.get(e.rw[s.sid]) == dout[("m", s.callee)], case=case,
                              detail=dict(det, site=s.sid, observed=ctx.get(e.rw[s.sid]), method_output=dout[("m", s.callee)]))
                    if s.via:
                        rec.count("calls_through_aliases")
            for j in range(D.nm):
                k = ("m", j)
                md = D.meth[j]
                nact = len(act[j])
                rec.check("C04:method_runs_iff_some_call_site_active", bool(run[k]) == (nact > 0), case=case, detail=dict(det, method=j, active_sites=[s.sid for s in act[j]]))
                if k not in A.called:
                    rec.check("C04:uncalled_method_never_runs", not run[k], case=case, detail=dict(det, method=j))
                if run[k]:
                    rec.count("method_run_cycles")
                elif any(run[s.caller.key] for s in D.sites if s.callee == j):
                    rec.count("method_idle_while_a_caller_ran")
                if not md["nonex"]:
                    rec.check("C01:at_most_one_active_call_per_exclusive_method", nact <= 1, case=case, detail=dict(det, method=j, active_sites=[s.sid for s in act[j]]))
                    if sum(1 for s in D.sites if s.callee == j and rdy_eff[s.caller.key]) >= 2:
                        rec.count("exclusive_method_contended_cycles")
                if nact > 1:
                    rec.count("nonexclusive_multi_caller_cycles")
                if run[k] and md["has_in"]:
                    args = [argval(s) for s in act[j]]
                    if not md["nonex"] and nact == 0:
                        rec.check("C05:exclusive_method_sees_argument_of_its_active_call", False, case=case,
                                  detail=dict(det, method=j, observed=din[k], expected="no call site is active, yet the method runs on some argument"))
                    if not md["nonex"] and nact == 1:
                        if sum(1 for s in D.sites if s.callee == j) >= 2:
                            rec.count("routed_args_with_several_potential_callers")
                        rec.check("C05:exclusive_method_sees_argument_of_its_active_call", din[k] == args[0], case=case, detail=dict(det, method=j, observed=din[k], expected=args[0]))
                    elif md["nonex"] and nact >= 1:
                        if md["combiner"] == "or":
                            exp = 0
                            for a_ in args:
                                exp |= a_
                        elif md["combiner"] == "sum":
                            exp = sum(args) & 15
                        elif md["combiner"] == "sum_plus_count":
                            exp = (sum(args) + len(args)) & 15
                            if sum(1 for s in D.sites if s.callee == j) == 1:
                                rec.count("non_identity_combiner_with_single_call_site_cycles")
                        else:
                            exp = args[0] if nact == 1 else None  # default one-hot combiner: defined for a single active call only
                        if exp is not None:
                            rec.check("C05:combiner_applied_to_exactly_the_active_calls", din[k] == exp, case=case,
                                      detail=dict(det, method=j, combiner=md["combiner"], observed=din[k], expected=exp, args=args))
                            if nact >= 2:
                                rec.count("combiner_cycles_with_several_contributors")
                if run[k]:
                    exp_out = ((din[k] + j + 1) & 15) if md["has_in"] else (j + 1) & 15  # outputs are 4 bits wide
                    if dout[k] != exp_out:
                        rec.harness_error(f"method output differs from its definition (design {case.get('design')}, method {j})")
                for al in aliases_of[j]:
                    ok = ctx.get(al.run) == run[k] and ctx.get(al.data_out.y) == dout[k] and (not md["has_in"] or ctx.get(al.data_in.x) == din[k])
                    rec.check("C05:alias_signals_equal_the_body", ok, case=case, detail=dict(det, method=j))
            for k, b in D.bodies.items():
                if b.parent is not None:
                    rec.check("C04:nested_body_runs_only_with_enclosing_body", not run[k] or bool(run[b.parent.key]), case=case, detail=dict(det, body=str(k)))
            for wid, dom, b, pos in D.wits:
                og = evalpos(pos, bits, fsm_on)
                rr = True
                x = b
                while x is not None:
                    rr = rr and bool(run[x.key])
                    x = x.parent
                val = bool(ctx.get(e.ww[wid]))
                if dom == "sync":
                    if wid in prev["sync"]:
                        pval, pcond = prev["sync"][wid]
                        rec.check("C06:sync_assignment_takes_effect_iff_body_ran_and_conditions_held", val == (pval ^ pcond), case=case,
                                  detail=dict(det, witness=wid, toggled=val != pval, expected_toggle=pcond))
                        if og and not rr:
                            rec.count("domain_cycles_conditions_hold_but_body_idle")
                    prev["sync"][wid] = (val, og and rr)
                else:
                    exp = (og and rr) if dom == "comb" else og if dom == "av" else True
                    name = {"comb": "C06:comb_assignment_only_when_body_runs_and_conditions_hold", "av": "C06:av_comb_follows_conditions_regardless_of_run",
                            "top": "C06:top_comb_always_takes_effect"}[dom]
                    rec.check(name, val == bool(exp), case=case, detail=dict(det, witness=wid, domain=dom, observed=val, expected=bool(exp)))
                    if og and not rr:
                        rec.count("domain_cycles_conditions_hold_but_body_idle")
                    if any(e_[0][0] == "fsm" for e_ in pos):
                        rec.count("domain_checks_inside_fsm_state")
            elig_w, elig_s = {}, {}
            for t in T:
                tree = {("m", c[-1].callee) for c in A.ch[t]}
                ok = rdy_eff[t] and all(rdy_eff[mk] for mk in tree)
                only_validation = ok
                for c in A.ch[t]:
                    md = D.meth[c[-1].callee]
                    if md["validate"] is not None and all(evalpos(s.pos, bits, fsm_on, len(s.caller.pos)) for s in c):
                        vi, op = md["validate"]
                        av = argval(c[-1])
                        ok = ok and {"eq": av == ins[vi], "ne": av != ins[vi], "bit0": (av & 1) == (ins[vi] & 1)}[op]
                if only_validation and not ok:
                    rec.count("cycles_blocked_only_by_validation")
                w = ok and all(run[d] for d in A.deps[t])
                if ok and not w:
                    rec.count("cycles_blocked_only_by_ready_dependency")
                s_ = w and all(run[d] for mk in tree for d in A.deps[mk])
                elig_w[t], elig_s[t] = w, s_
                if rdy_eff[t] and not all(rdy_eff[mk] for mk in tree):
                    locked_by_disabled = any(not rdy_eff[("m", c[-1].callee)] and not all(evalpos(s.pos, bits, fsm_on, len(s.caller.pos)) for s in c) for c in A.ch[t])
                    if locked_by_disabled:
                        rec.count("cycles_locked_by_method_behind_disabled_call")
                rec.check("C03:transaction_runs_only_when_fully_enabled", not run[t] or w, case=case, detail=dict(det, transaction=str(t), ready=rdy_eff[t]))
                if sched == "eager":
                    if s_ and not run[t]:
                        rec.count("enabled_but_blocked_cycles")
                        rec.check("C07:blocked_transaction_has_running_conflicting_transaction", any(run[x] for x in A.conf[t]), case=case,
                                  detail=dict(det, transaction=str(t), reference_conflicts=sorted(str(x) for x in A.conf[t])))
                if run[t]:
                    rec.count("transaction_run_cycles")
            running = [t for t in T if run[t]]
            if len(running) >= 2:
                rec.count("cycles_with_two_or_more_transactions_running")
                for t1, t2 in itertools.combinations(running, 2):
                    bad = None
                    for c1 in A.ch[t1]:
                        for c2 in A.ch[t2]:
                            if c1[-1].callee != c2[-1].callee or D.meth[c1[-1].callee]["nonex"]:
                                continue
                            a1, a2 = [s.callee for s in reversed(c1)], [s.callee for s in reversed(c2)]
                            top_ = None
                            for x, y in zip(a1, a2):
                                if x != y:
                                    break
                                top_ = x
                            if not D.meth[top_]["nonex"] and not chain_excl(c1, c2):
                                bad = (c1[-1].sid, c2[-1].sid)
                    rec.check("C01:co_running_transactions_reach_shared_exclusive_methods_only_on_exclusive_paths", bad is None, case=case,
                              detail=dict(det, transactions=[str(t1), str(t2)], sites=bad))
            for a, b2, prio in D.confl:
                same = any(a in A.reach[t] and b2 in A.reach[t] for t in T)
                if same:
                    rec.count("conflict_ends_used_by_one_transaction_on_exclusive_paths_cycles")
                both_enabled = any(elig_s.get(ta) for ta in A.tfor(a)) and any(elig_s.get(tb_) for tb_ in A.tfor(b2))
                if both_enabled:
                    rec.count("conflict_pairs_both_sides_enabled_cycles")
                rec.check("C02:add_conflict_ends_never_run_together", not (run[a] and run[b2]), case=case, klass="",
                          detail=dict(det, ends=[str(a), str(b2)], priority=prio.name, reached_from_one_transaction=same))
                if prio != Priority.UNDEFINED and not same and sched == "eager":
                    hi, lo = (a, b2) if prio == Priority.LEFT else (b2, a)
                    for th in T:
                        for tl in T:
                            if th != tl and hi in A.reach[th] and lo in A.reach[tl] and elig_s[th] and elig_s[tl] and tl in A.conf[th]:
                                rec.count("prioritised_pairs_both_enabled_cycles")
                                okp = not run[tl] or (not run[th] and any(run[x] for x in A.conf[th] if x != tl))
                                if run[tl] and okp:
                                    rec.count("priority_high_side_blocked_by_third_party")
                                rec.check("C08:low_priority_runs_only_if_high_priority_blocked_by_another", okp, case=case,
                                          detail=dict(det, high=str(th), low=str(tl)))
            if sched == "eager":
                for a, b2, rd in D.sb:
                    for ta in A.tfor(a):
                        for tb_ in A.tfor(b2):
                            if ta == tb_ or tb_ in A.conf[ta] or not (elig_s.get(ta) and elig_s.get(tb_)):
                                continue
                            # an ordering without a conflict: both sides are fully enabled, so each one that stays idle needs a *conflicting* runner
                            rec.count("schedule_before_pairs_both_enabled_cycles")
                            for x in (ta, tb_):
                                rec.check("C08:schedule_before_ordering_never_blocks_either_side", bool(run[x]) or any(run[y] for y in A.conf[x]), case=case,
                                          detail=dict(det, ordered_pair=[str(ta), str(tb_)], idle=str(x)))
            for comp, internal in comps:
                nrun = sum(1 for t in comp if run[t])
                rec.check("C09:at_most_one_transaction_per_component_runs", nrun <= 1, case=case, detail=dict(det, component=[str(t) for t in comp]))
                rec.state(f"rr|{len(comp)}|{''.join(str(int(bool(elig_s[t]))) for t in comp)}|{''.join(str(int(bool(run[t]))) for t in comp)}")
                if internal:
                    rec.count("rr_component_cycles_skipped_for_internal_ready_dependency")
                    continue
                anyreq = any(elig_s[t] for t in comp)
                rec.check("C09:one_runs_whenever_some_transaction_of_the_component_is_enabled", nrun == 1, antecedent=anyreq, case=case,
                          detail=dict(det, component=[str(t) for t in comp], enabled=[str(t) for t in comp if elig_s[t]]))
                if len(comp) > 1:
                    rec.count("rr_multi_transaction_component_cycles")
                for t in comp:
                    if elig_s[t]:
                        if run[t]:
                            if rr_wait[t] == len(comp) - 1 and len(comp) > 1:
                                rec.count("rr_requesters_served_after_maximal_wait")
                            rr_wait[t] = 0
                        else:
                            rr_wait[t] += 1
                            rec.check("C09:continuously_enabled_transaction_granted_within_component_size_cycles", rr_wait[t] <= len(comp) - 1, case=case,
                                      detail=dict(det, transaction=str(t), waited=rr_wait[t], component_size=len(comp)))
                    else:
                        rr_wait[t] = 0
            await ctx.tick()

    sim.add_testbench(tb)
    try:
        sim.run()
    except Exception:
        if not rec.viol_total:
            rec.harness_error("simulation crashed: " + traceback.format_exc()[-500:])
    rec.count("designs_simulated")
    if getattr(D, "count_xmod_shared_call", False):
        rec.count("designs_with_cross_module_mirrored_call_sites")
    if getattr(D, "count_case_after_if", False):
        rec.count("designs_with_conflict_between_first_if_body_and_later_switch_case_body")
    if getattr(D, "count_excl_ordered", False):
        rec.count("designs_with_exclusive_but_ordered_pair")
    if getattr(D, "relations_via_proxy", 0):
        rec.count("conflicts_declared_on_proxy_methods", D.relations_via_proxy)
    if exhaustive:
        rec.count("designs_with_exhaustive_valuations")
    if any(b.parent is not None for b in D.bodies.values()):
        rec.count("designs_with_nesting")
    if any(md["validate"] for md in D.meth):
        rec.count("designs_with_validation")
    if D.fsms:
        rec.count("designs_with_fsm")
    # conflicts the manager created that the reference does not justify (statistics + C07 directed stimulus hook)
    try:
        mgr_edges = set()
        name_of = {}
        for k in T:
            name_of[id(e.objs[k]._body)] = k
        for method_map, gr, cc, porder in recorder.calls:
            for t1, ts in gr.items():
                for t2 in ts:
                    if id(t1) in name_of and id(t2) in name_of:
                        mgr_edges.add(frozenset((name_of[id(t1)], name_of[id(t2)])))
        ref_edges = {frozenset((t1, t2)) for t1 in A.conf for t2 in A.conf[t1]}
        extra = mgr_edges - ref_edges
        missing = ref_edges - mgr_edges
        rec.count("manager_conflict_edges", len(mgr_edges))
        if extra:
            rec.count("manager_edges_not_justified_by_reference", len(extra))
        if missing:
            rec.count("reference_conflicts_without_manager_edge", len(missing))
        shared = 0
        for t1, t2 in itertools.combinations(T, 2):
            if (A.reach[t1] & A.reach[t2]) - {t1, t2} and frozenset((t1, t2)) not in mgr_edges:
                shared += 1
        if shared:
            rec.count("pairs_sharing_a_method_without_conflict_edge", shared)
    except Exception:
        pass
    return True


# ------------------------------------------------------------------------------------------------------------------
# C11: acceptance / rejection
def elaborate_outcome(D, sched="eager"):
    try:
        e, sim, recorder, top = build(D, sched)
        return "accepted", None
    except Exception as ex:
        return classify_exception(ex), ex


def new_site(D, caller, callee, pos=None, en=None):
    s = Site()
    s.sid = D.sid
    D.sid += 1
    s.callee, s.caller, s.en, s.via = callee, caller, en, 0
    s.pos = caller.pos if pos is None else pos
    if D.meth[callee]["has_in"]:
        s.arg = ("const", 5)
    else:
        s.arg = None
    D.sites.append(s)
    return s


def mutate_invalid(D, A, rnd):
    """Apply ONE invalidating mutation to a well-formed design. Returns (class, description) or None if not applicable."""
    kinds = ["double_direct", "double_parallel_ifs", "selfcall", "call_cycle", "prio_cycle", "single_caller", "single_caller_indirect", "deadlock", "double_via_alias"]
    rnd.shuffle(kinds)
    bodies = list(D.bodies.values())
    for kind in kinds:
        if kind in ("double_direct", "double_via_alias"):
            cand = [s for s in D.sites if not D.meth[s.callee]["nonex"]]
            if not cand:
                continue
            s = rnd.choice(cand)
            n = new_site(D, s.caller, s.callee, pos=s.pos if s.en is None else s.pos[:-1])
            if kind == "double_via_alias":
                n.via = 1
            place_after(D, s, ("call", n))
            return "double", f"{kind}: second call of M{s.callee} next to site {s.sid}"
        if kind == "double_parallel_ifs":
            cand = [s for s in D.sites if not D.meth[s.callee]["nonex"] and s.en is None]
            if not cand:
                continue
            s = rnd.choice(cand)
            # a second call of the same method under a *parallel* If (not an alternative of the same structure)
            sid = D.struct
            D.struct += 1
            D.nbits += 1
            cbit = D.nbits - 1
            n = new_site(D, s.caller, s.callee, pos=s.pos + ((("if", sid), 0),))
            place_after(D, s, ("if", sid, [cbit], [[("call", n)]], None))
            return "double", f"double_parallel_ifs: M{s.callee} called again under a separate If"
        if kind == "selfcall":
            ms = [b for b in bodies if b.kind == "m"]
            if not ms:
                continue
            b = rnd.choice(ms)
            n = new_site(D, b, b.idx)
            b.stmts.append(("call", n))
            return "selfcall", f"selfcall: M{b.idx} calls itself"
        if kind == "call_cycle":
            cand = [s for s in D.sites if s.caller.kind == "m"]
            if not cand:
                continue
            s = rnd.choice(cand)
            callee_body = D.bodies[("m", s.callee)]
            n = new_site(D, callee_body, s.caller.idx)
            callee_body.stmts.append(("call", n))
            return "selfcall", f"call_cycle: M{s.caller.idx} -> M{s.callee} -> M{s.caller.idx}"
        if kind == "prio_cycle":
            T = A.T
            if len(T) < 2:
                continue
            t1, t2 = rnd.sample(T, 2)
            D.confl.append((t1, t2, Priority.LEFT))
            D.confl.append((t1, t2, Priority.RIGHT))
            return "prio", f"prio_cycle: {t1} and {t2} prioritised both ways"
        if kind in ("single_caller", "single_caller_indirect"):
            cand = []
            for j in range(D.nm):
                direct = {s.caller.key for s in D.sites if s.callee == j}
                ts = A.tfor(("m", j))
                if len(ts) >= 2 and ((kind == "single_caller" and sum(1 for s in D.sites if s.callee == j) >= 2) or
                                     (kind == "single_caller_indirect" and sum(1 for s in D.sites if s.callee == j) == 1)):
                    cand.append(j)
            if not cand:
                continue
            j = rnd.choice(cand)
            D.meth[j]["single_caller"] = True
            return "single_caller", f"{kind}: M{j} marked single_caller but reached from {len(A.tfor(('m', j)))} transactions"
        if kind == "deadlock":
            pairs = [(t1, t2) for t1 in A.T for t2 in A.conf[t1] if D.deford[t1] < D.deford[t2]]
            if not pairs:
                continue
            t1, t2 = rnd.choice(pairs)
            D.sb.append((t1, t2, True))
            return "deadlock", f"deadlock: {t2} made ready-dependent on conflicting {t1}"
    return None


def place_after(D, site, stmt):
    def rec(stmts):
        for i, st in enumerate(stmts):
            if st[0] == "call" and st[1] is site:
                stmts.insert(i + 1, stmt)
                return True
            if st[0] == "if":
                if any(rec(a) for a in st[3]) or (st[4] is not None and rec(st[4])):
                    return True
            elif st[0] == "switch":
                if any(rec(a) for _, a in st[3]) or (st[4] is not None and rec(st[4])):
                    return True
            elif st[0] == "fsm":
                if any(rec(a) for a in st[2]):
                    return True
            elif st[0] == "body":
                if rec(st[1].stmts):
                    return True
        return False
    for b in D.order:
        if rec(b.stmts):
            return
    raise AssertionError("site not found")


def check_c11(rec: Rec, D, rnd, case):
    """Unrepaired random design: the reference predicts accept / reject; then repaired + single invalidating mutation."""
    A = analyse(D)
    reasons = invalid_reasons(A)
    outcome, ex = elaborate_outcome(D)
    rec.count("elaborations")
    if any(x[4] for x in A.same_trans_conflict) and not reasons:
        rec.count("designs_with_conflict_inside_one_transaction(not_judged_by_C11)")
    elif reasons:
        for r in reasons:
            rec.count("generated_invalid:" + r)
        rec.check("C11:ill_formed_design_raises:" + reasons[0], outcome != "accepted", case=dict(case, reference_reasons=reasons, ir=describe(D)),
                  detail={"outcome": outcome})
        if outcome != "accepted" and outcome not in reasons and not outcome.startswith("conflict_within"):
            rec.note(f"design {case.get('design')}: rejected as {outcome}, reference expected {reasons}")
            rec.count("rejections_with_other_class_than_predicted")
    else:
        rec.check("C11:well_formed_design_elaborates", outcome == "accepted", case=dict(case, ir=describe(D)), detail={"outcome": outcome, "exception": repr(ex)[:300]})
        rec.count("generated_valid")
        excl_multi = 0
        for j in range(D.nm):
            if not D.meth[j]["nonex"]:
                for k in D.bodies:
                    n = sum(1 for c in A.ch[k] if c[-1].callee == j)
                    if n >= 2:
                        excl_multi += 1
        if excl_multi:
            rec.count("accepted_designs_calling_an_exclusive_method_several_times_on_exclusive_paths")
        if any(D.meth[j]["nonex"] and sum(1 for c in A.ch[k] if c[-1].callee == j) >= 2 for j in range(D.nm) for k in D.bodies):
            rec.count("accepted_designs_calling_a_nonexclusive_method_several_times")
    # single-defect mutants of the repaired design
    A2 = repair(D, rnd)
    if A2 is None:
        rec.count("unrepairable")
        return
    outcome2, ex2 = elaborate_outcome(D)
    rec.check("C11:well_formed_design_elaborates", outcome2 == "accepted", case=dict(case, repaired=True, ir=describe(D)), detail={"outcome": outcome2, "exception": repr(ex2)[:300]})
    rec.count("elaborations")
    mut = mutate_invalid(D, A2, rnd)
    if mut is None:
        return
    klass, desc = mut
    A3 = analyse(D)
    r3 = invalid_reasons(A3)
    if not r3:
        rec.harness_error(f"mutation '{desc}' did not make the reference consider the design invalid (design {case.get('design')})")
        return
    outcome3, _ = elaborate_outcome(D)
    rec.count("elaborations")
    rec.count("mutated_invalid:" + desc.split(":")[0])
    rec.nontrivial("mut|" + desc.split(":")[0] + "|" + outcome3.split(":")[0])
    rec.check("C11:ill_formed_design_raises:" + klass, outcome3 != "accepted", case=dict(case, mutation=desc, ir=describe(D)), detail={"outcome": outcome3})


# ------------------------------------------------------------------------------------------------------------------
# C35: the repository's profiler process attached next to an independent observer
def run_profiled(rec: Rec, D, A, rnd, case, cycles=150):
    from transactron.profiler import Profile, ProfileData
    from transactron.testing.profiler import profiler_process

    try:
        e, sim, recorder, top = build(D, "eager")
        build_netlist(sim._design)
    except Exception:
        rec.count("designs_not_elaborated")
        return
    sim.add_clock(1e-6)
    tm = top.transaction_manager
    profile = Profile()
    with DependencyContext(top.manager):
        sim.add_process(profiler_process(tm, profile))
        pdata, get_id = ProfileData.make(tm)
        ids = {k: get_id(e.objs[k]._body) for k in D.bodies if k[0] == "t" or k in A.called or True}
    T = A.T
    bl = list(D.bodies)
    obs = []

    async def observer(ctx):
        sigs = [e.objs[b].run for b in bl] + [e.objs[t]._body.ready for t in T] + [e.objs[t]._body.runnable for t in T]
        async for _, _, *vals in ctx.tick().sample(*sigs):
            obs.append([int(v) for v in vals])

    async def tb(ctx):
        pr = 0.5
        for cyc in range(cycles):
            if cyc % 25 == 0:
                pr = rnd.choice([0.2, 0.5, 0.9, 0.97])
            for s in e.bits:
                ctx.set(s, int(rnd.random() < pr))
            for s in e.ins:
                ctx.set(s, rnd.randrange(16))
            await ctx.tick()

    sim.add_process(observer)
    sim.add_testbench(tb)
    try:
        with DependencyContext(top.manager):
            sim.run()
    except Exception:
        rec.harness_error("profiled simulation crashed: " + traceback.format_exc()[-500:])
        return
    nb = len(bl)
    known = set(pdata.transactions_and_methods)
    n = min(len(profile.cycles), len(obs))
    rec.check("C35:one_cycle_profile_per_simulated_cycle", abs(len(profile.cycles) - len(obs)) <= 1 and n >= cycles - 1, case=case,
              detail={"profile_cycles": len(profile.cycles), "observed_cycles": len(obs)})
    runcnt, lockcnt = collections.Counter(), collections.Counter()
    for cyc in range(n):
        cp, vals = profile.cycles[cyc], obs[cyc]
        running = {ids[b] for b, v in zip(bl, vals[:nb]) if v and ids[b] in known}
        det = {"cycle": cyc, "profile_running": sorted(cp.running), "observed_running": sorted(running), "profile_locked": dict(cp.locked)}
        rec.check("C35:profile_lists_exactly_the_bodies_that_ran", set(cp.running) == running, case=case, detail=det)
        for mid, caller in cp.running.items():
            if caller is not None:
                rec.check("C35:running_method_has_a_running_caller", caller in running and caller in pdata.method_parents.get(mid, []), case=case, detail=dict(det, method=mid, caller=caller))
                rec.count("method_records")
            elif not pdata.transactions_and_methods[mid].is_transaction:
                rec.check("C35:running_method_has_a_running_caller", False, case=case, detail=dict(det, method=mid, caller=None))
        rdy = dict(zip(T, vals[nb:nb + len(T)]))
        rnb = dict(zip(T, vals[nb + len(T):]))
        for t in T:
            i = ids[t]
            if i in cp.running:
                runcnt[i] += 1
            if i in cp.locked:
                lockcnt[i] += 1
                rec.count("locked_transaction_cycles")
                lk = cp.locked[i]
                ok = bool(rdy[t] and rnb[t]) and i not in running and lk in running and lk in pdata.transaction_conflicts[i]
                rec.check("C35:locked_only_when_ready_runnable_not_running_and_a_conflicting_transaction_ran", ok, case=case,
                          detail=dict(det, transaction=i, locker=lk, ready=rdy[t], runnable=rnb[t], conflicts=pdata.transaction_conflicts[i]))
            elif rdy[t] and rnb[t] and i not in running:
                rec.count("ready_runnable_idle_without_lock_record")
                if any(c in running for c in pdata.transaction_conflicts[i]):
                    # the converse of the locked clause is NOT part of C35 ("locked only when ..."): reported as a statistic, never as a violation
                    rec.count("statistic:idle_transaction_with_running_conflicting_transaction_not_marked_locked")
        rec.count("cycles")
    stats = profile.analyze_transactions()
    tids = [i for i, info in profile.transactions_and_methods.items() if info.is_transaction]
    for i, node in zip(tids, stats):
        rec.check("C35:run_and_locked_statistics_equal_counts_over_cycles", node.stat.run == runcnt[i] and node.stat.locked == lockcnt[i], case=case,
                  detail={"transaction": i, "stat_run": node.stat.run, "counted_run": runcnt[i], "stat_locked": node.stat.locked, "counted_locked": lockcnt[i]})
    rec.count("designs_profiled")
