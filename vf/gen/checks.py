"""Check-module factory for the properties decided by the core design generator (C01-C08, C10, C11)."""

from __future__ import annotations

import hashlib
import json
import random

from ..rec import Rec
from . import core

COMMON_ASSUMPTIONS = [
    "designs come from the generator's IR (section 3.1 of DESIGN.md): 2-4 top-level transactions, 2-5 methods, nesting depth <= 2(3), If/Elif/Else, Switch, FSM, "
    "enable_call, validate_arguments, nonexclusive methods with OR / sum / default combiners, provide() alias chains, add_conflict with every priority, "
    "schedule_before with and without ready_dependent, Forwarder-style ready",
    "the reference semantics (section 3.2) is the oracle; site-activity witnesses placed by the emitter are cross-checked against it every cycle (disagreement = harness error, not a violation)",
    "pysim is the execution platform; signals are sampled after combinational settling in every cycle",
]


def shape_of(D):
    kinds = []
    for b in D.order:
        for st in core.walk(b.stmts):
            kinds.append(st[0])
    sig = f"t{D.nt}m{D.nm}|" + ",".join(f"{k}{kinds.count(k)}" for k in sorted(set(kinds))) + f"|c{len(D.confl)}s{len(D.sb)}|nx{sum(1 for m in D.meth if m['nonex'])}"
    return sig


def transfer(src: Rec, dst: Rec, own: tuple[str, ...]):
    for k, v in src.counters.items():
        dst.counters[k] += v
    for name, c in src.conds.items():
        if name.startswith(own):
            d = dst.conds.setdefault(name, [0, 0, 0])
            for i in range(3):
                d[i] += c[i]
        elif c[2]:
            dst.counters["foreign_alarm:" + name] += c[2]
    for v in src.violations:
        if v["cond"].startswith(own):
            dst.violations.append(v)
            dst.viol_total += 1
    for h in src.harness_errors:
        dst.harness_error(h)
    for n in src.notes:
        dst.note(n)
    dst.distinct |= src.distinct


SUITE_PARTS = {"test/lib/test_storage.py": 12, "test/lib/test_metrics.py": 6, "test/utils/test_amaranth_ext.py": 3, "test/lib/test_stack.py": 2,
               "test/utils/test_utils.py": 2, "test/lib/test_fifo.py": 2, "test/lib/test_allocators.py": 2}  # long files are split (every n-th test)
SUITE_QUICK = ["test/lib/test_connectors.py", "test/core/test_methods.py"]


def suite_shards(tier, seed):
    """Third workload of C01-C04: the repository's own tests, run with the transaction sanitizer attached to every simulator they create."""
    import glob
    import os
    root = os.environ.get("VERIF_REPO") or "/repo"
    if not os.path.isdir(os.path.join(root, "test")):
        root = "/repo"
    files = SUITE_QUICK if tier == "quick" else sorted(os.path.relpath(f, root) for f in glob.glob(os.path.join(root, "test", "**", "test_*.py"), recursive=True))
    out = []
    for f in files:
        n = SUITE_PARTS.get(f, 1) if tier != "quick" else 1
        out += [{"seed": seed, "suite": True, "file": f, "root": root, "part": f"{i}/{n}"} for i in range(n)]
    return out


def run_suite_shard(spec, rec: Rec, pid: str, own: tuple[str, ...], passive: tuple[str, ...] = ()):
    import os
    import shutil
    import subprocess
    import tempfile
    d = tempfile.mkdtemp(prefix="vfsuite_")  # scratch cwd: hypothesis and pytest write their files here, never into the repository
    out = os.path.join(d, "out.json")
    verif = os.path.dirname(os.path.dirname(os.path.dirname(os.path.abspath(__file__))))
    pp = os.pathsep.join(x for x in [os.environ.get("VERIF_REPO", ""), verif] if x)
    try:
        subprocess.run(["/venv/bin/python", "-m", "pytest", "-q", "-p", "no:cacheprovider", "-p", "vf.pytest_txsan", os.path.join(spec["root"], spec["file"])],
                       cwd=d, env=dict(os.environ, PYTHONPATH=pp, VF_SUITE_OUT=out, VF_SUITE_PROP=pid, VF_SUITE_PART=spec.get("part", "0/1"), VF_SUITE_PASSIVE=",".join(passive), VERIF_ANCHORS="0"), capture_output=True, text=True, timeout=2400)
    except subprocess.TimeoutExpired:
        rec.note(f"repository test file {spec['file']} did not finish under the sanitizer within the time limit (not a verdict)")
    try:
        if os.path.exists(out):
            sub = Rec(pid, rec.shard)
            with open(out) as f:
                dd = json.load(f)
            sub.counters.update(dd["counters"])
            sub.conds = dd["conds"]
            sub.violations, sub.viol_total = dd["violations"], dd["viol_total"]
            sub.distinct = set(dd.get("distinct", []))
            for h in dd.get("harness_errors", []):
                sub.harness_error(h)
            transfer(sub, rec, own)
            rec.count("repository_test_files_run_under_the_sanitizer")
        else:
            rec.count("repository_test_files_without_sanitizer_output")
    finally:
        shutil.rmtree(d, ignore_errors=True)


class GenCheck:
    def __init__(self, pid: str, own: tuple[str, ...], opts: dict, scheds=("eager",), nontrivial_counter: str = "", quick=(96, 150), thorough=(6000, 300),
                 mode: str = "simulate", library: bool = False, cond: bool = False, suite: bool = False):
        self.pid, self.own, self.opts, self.scheds, self.ntc, self.mode = pid, own, opts, scheds, nontrivial_counter, mode
        self.library, self.cond, self.suite = library, cond, suite
        self.tiers = {"quick": quick, "thorough": thorough}

    def shards(self, tier, seed):
        n, cycles = self.tiers[tier]
        per = 3 if tier == "quick" else 25
        if self.mode == "c11":
            per = 12 if tier == "quick" else 150
        out = [{"seed": seed, "first": i, "n": min(per, n - i), "cycles": cycles} for i in range(0, n, per)]
        if self.cond:
            ncond = 12 if tier == "quick" else 200
            out += [{"seed": seed, "cond": True, "first": i * 5, "n": 5, "cycles": 300 if tier == "quick" else 800} for i in range(ncond)]
        if self.library:
            nlib = 16 if tier == "quick" else 160
            out += [{"seed": seed, "lib": True, "first": i * 3, "n": 3, "cycles": 250 if tier == "quick" else 600} for i in range(nlib)]
        if self.suite:
            out += suite_shards(tier, seed)
        return out

    def run_library_shard(self, spec, rec: Rec):
        """Realistic second workload: library components driven by the hostile component driver with the transaction sanitizer attached."""
        import importlib
        from ..comp.driver import run_history
        from .. import txsan
        mods = ["c14", "c15", "c16", "c17", "c20", "c21", "c22", "c24", "c25", "c26", "c27", "c31", "c18", "c28", "c19", "c28", "c18"]
        for i in range(spec["first"], spec["first"] + spec["n"]):
            name = mods[i % len(mods)]
            if name in ("c18", "c28", "c19"):
                mod = importlib.import_module(f"vf.checks.{name}")
                rnd = random.Random(f"{self.pid}:lib:{spec['seed']}:{i}")
                sub, san = Rec(self.pid, rec.shard), Rec(self.pid, rec.shard)
                txsan.CURRENT = san
                try:
                    if name == "c18":
                        kind = list(mod.KINDS)[i % len(mod.KINDS)]
                        mod.run_history(sub, kind, rnd, spec["cycles"], {"transformer": kind, "library_history": i})
                    elif name == "c28":
                        mod.run_pipeline(sub, rnd, spec["cycles"], i, clear_p=rnd.choice([0.0, 0.03]))
                    else:
                        mod.run_serializer(sub, rnd, spec["cycles"], {"component": "Serializer", "ports": 1 + i % 4, "depth": 1 + i % 5, "library_history": i})
                finally:
                    txsan.CURRENT = None
                if sub.viol_total:
                    rec.count("foreign_alarm:component_model:" + name.upper())
                transfer(san, rec, self.own)
                rec.count("library_histories")
                continue
            mod = importlib.import_module(f"vf.checks.{name}")
            rnd = random.Random(f"{self.pid}:lib:{spec['seed']}:{i}")
            picked = mod.pick(rnd, i)
            case, make = picked[0], picked[1]
            case = dict(case, library_history=i)
            sub, san = Rec(self.pid, rec.shard), Rec(self.pid, rec.shard)
            run_history(sub, make, rnd, spec["cycles"], case, drain=40, san_rec=san)
            if sub.viol_total:
                rec.count("foreign_alarm:component_model:" + name.upper())
            transfer(san, rec, self.own)
            rec.count("library_histories")

    def run_cond_shard(self, spec, rec: Rec):
        """condition() designs of the cond profile (C12's generator): ready-dependencies that the manager replaces by merged-transaction
        enables are only observable there."""
        from ..checks import c12
        for i in range(spec["first"], spec["first"] + spec["n"]):
            rnd = random.Random(f"{self.pid}:cond:{spec['seed']}:{i}")
            sub = Rec(self.pid, rec.shard)
            c12.run_one(sub, rnd, i, spec["cycles"])
            sub.counters = type(sub.counters)({("cond_profile_" + k): v for k, v in sub.counters.items()})
            sub.distinct = set()
            transfer(sub, rec, self.own)

    def run_shard(self, spec, rec: Rec):
        if spec.get("suite"):
            return run_suite_shard(spec, rec, self.pid, self.own)
        if spec.get("cond"):
            return self.run_cond_shard(spec, rec)
        if spec.get("lib"):
            return self.run_library_shard(spec, rec)
        for i in range(spec["first"], spec["first"] + spec["n"]):
            rnd = random.Random(f"{self.pid}:{spec['seed']}:{i}")
            D = core.gen(rnd, self.opts)
            case = {"design": i, "seed": spec["seed"], "property": self.pid}
            sub = Rec(self.pid, rec.shard)
            if self.mode == "c11":
                core.check_c11(sub, D, rnd, case)
                transfer(sub, rec, self.own)
                continue
            A = core.repair(D, rnd, keep_same_trans=True, keep_unsat_same_trans=bool(self.opts.get("p_same_trans_conflict")))
            if A is None:
                rec.count("unrepairable_designs")
                continue
            sched = self.scheds[i % len(self.scheds)]
            case["scheduler"] = sched
            case["ir"] = core.describe(D)
            core.run_design(sub, D, A, rnd, case, sched=sched, cycles=spec["cycles"])
            sub.count("designs_under_" + sched)
            if self.ntc and sub.counters.get(self.ntc, 0) > 0:
                sub.nontrivial(f"{shape_of(D)}|{sched}")
            transfer(sub, rec, self.own)
            if len(rec.samples) < 1 and sub.counters.get("designs_simulated"):
                rec.sample({"design": i, "scheduler": sched, "ir": case["ir"], "cycles_simulated": sub.counters.get("cycles", 0)})
