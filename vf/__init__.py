"""Runtime-monitoring framework for Transactron (see /verif/DESIGN.md).

Importing this package puts the repository under test first on sys.path
(VERIF_REPO, default /repo) so that the same commands check scratch copies,
and adds the offline-installed third-party directory (.deps) when present.
"""

import os
import sys
import warnings

VERIF_DIR = os.path.dirname(os.path.dirname(os.path.abspath(__file__)))
REPO = os.environ.get("VERIF_REPO", "/repo")
DEPS = os.path.join(VERIF_DIR, ".deps")

if REPO not in sys.path[:1]:
    sys.path.insert(0, REPO)
if os.path.isdir(DEPS) and DEPS not in sys.path:
    sys.path.append(DEPS)

# hooks guard (no source hooks exist; the variable is set for uniformity)
os.environ.setdefault("TRANSACTRON_VERIF", "1")
os.environ.setdefault("PYTHONHASHSEED", "0")
warnings.filterwarnings("ignore")
