"""CLI: python -m vf check <ID> --tier quick|thorough | worker ... | replay <path> | setup | list"""

from __future__ import annotations

import argparse
import json
import os
import subprocess
import sys
import traceback

from . import VERIF_DIR, DEPS


def setup() -> int:
    os.makedirs(os.path.join(VERIF_DIR, "evidence"), exist_ok=True)
    if not os.path.isdir(os.path.join(DEPS, "icontract")):
        r = subprocess.run(
            [sys.executable, "-m", "pip", "install", "--quiet", "--no-index", "--find-links", "/opt/veriftools/wheels",
             "--target", DEPS, "icontract"],
            capture_output=True, text=True,
        )
        print(r.stdout[-500:], r.stderr[-500:])
        if r.returncode != 0:
            print("setup: icontract could not be installed; pymon falls back to hand-written wrappers")
    print("setup ok")
    return 0


def worker(pid: str, spec_path: str, out_path: str) -> int:
    from .rec import Rec, jsonable
    from .runner import load_check
    from . import anchors

    mod = load_check(pid)
    with open(spec_path) as f:
        shards = json.load(f)
    cov = anchors.start(pid) if os.environ.get("VERIF_ANCHORS", "1") == "1" else None
    with open(out_path, "w") as out:
        for s in shards:
            rec = Rec(pid, s)
            try:
                mod.run_shard(s, rec)
                d = rec.dump()
            except Exception:
                d = {"crash": traceback.format_exc(), "shard": jsonable(s)}
            if cov is not None and not d.get("crash"):
                d["anchor_lines"] = anchors.snapshot(cov)
            out.write(json.dumps(d) + "\n")
            out.flush()
    return 0


def main(argv=None) -> int:
    ap = argparse.ArgumentParser(prog="vf")
    sub = ap.add_subparsers(dest="cmd", required=True)
    c = sub.add_parser("check")
    c.add_argument("pid")
    c.add_argument("--tier", default=os.environ.get("VERIF_TIER", "quick"), choices=["quick", "thorough"])
    c.add_argument("--seed", type=int, default=int(os.environ.get("VERIF_SEED", "0")))
    w = sub.add_parser("worker")
    w.add_argument("pid")
    w.add_argument("spec")
    w.add_argument("out")
    r = sub.add_parser("replay")
    r.add_argument("path")
    sub.add_parser("setup")
    sub.add_parser("list")
    a = ap.parse_args(argv)
    if a.cmd == "setup":
        return setup()
    if a.cmd == "worker":
        return worker(a.pid, a.spec, a.out)
    if a.cmd == "replay":
        from .runner import replay

        return replay(a.path)
    if a.cmd == "list":
        for f in sorted(os.listdir(os.path.join(VERIF_DIR, "vf", "checks"))):
            if f.startswith("c") and f.endswith(".py"):
                print(f[:-3].upper())
        return 0
    from .runner import run_check

    return run_check(a.pid.upper(), a.tier, a.seed)


if __name__ == "__main__":
    try:
        rc = main()
    except SystemExit:
        raise
    except BaseException:
        traceback.print_exc()
        print("INTERNAL-ERROR (exit 2): the check machinery itself failed; no verdict")
        rc = 2
    sys.exit(rc)
