"""pytest plugin: attaches the design-independent transaction sanitizer (vf/txsan.py) to every PysimSimulator the repository's own tests
create, and dumps what it observed.  Test outcomes are NOT verdicts (several tests are flaky under load); only the sanitizer's conditions count.

usage (from a scratch cwd):  VF_SUITE_OUT=out.json pytest -p vf.pytest_txsan /repo/test/lib/test_fifo.py"""

from __future__ import annotations

import json
import os

from vf.rec import Rec
from vf import txsan

REC = Rec(os.environ.get("VF_SUITE_PROP", "C01"))
CURRENT = {"test": ""}
PASSIVE = tuple(x for x in os.environ.get("VF_SUITE_PASSIVE", "").split(",") if x)  # component classes to watch with the passive monitors


def pytest_configure(config):
    from transactron.testing import simulator as simmod
    try:  # no hypothesis deadlines: under machine load they end tests early (less is observed); the data stays random
        import hypothesis
        hypothesis.settings.register_profile("vf", deadline=None)
        hypothesis.settings.load_profile("vf")
    except Exception:
        pass

    orig = simmod.PysimSimulator.__init__
    if PASSIVE:
        from vf import passive
        passive.install()
        passive.ACTIVE[0] = True

    def patched(self, *a, **kw):
        orig(self, *a, **kw)
        try:
            if txsan.attach(self, REC, {"repository_test": CURRENT["test"]}, tag="suite") is None:
                REC.count("suite_simulations_without_transaction_manager")
        except Exception as ex:  # the sanitizer must never break a test
            REC.count("suite_attach_failed:" + type(ex).__name__)
        if PASSIVE:
            try:
                from vf import passive
                passive.attach(self, REC, {"repository_test": CURRENT["test"]}, PASSIVE)
            except Exception as ex:
                REC.count("suite_passive_attach_failed:" + type(ex).__name__)

    simmod.PysimSimulator.__init__ = patched


def pytest_collection_modifyitems(config, items):
    part = os.environ.get("VF_SUITE_PART")  # "i/n": keep every n-th collected test, starting at i (large files are split over several shards)
    if part:
        i, n = (int(x) for x in part.split("/"))
        keep = [it for k, it in enumerate(items) if k % n == i]
        config.hook.pytest_deselected(items=[it for k, it in enumerate(items) if k % n != i])
        items[:] = keep


def pytest_runtest_setup(item):
    CURRENT["test"] = item.nodeid
    REC.count("suite_tests_started")


def pytest_sessionfinish(session, exitstatus):
    out = os.environ.get("VF_SUITE_OUT")
    if out:
        with open(out, "w") as f:
            json.dump(REC.dump(), f)
